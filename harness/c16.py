"""C16 - point-in-polygon classification used for land constraints is exact."""
import itertools
import math
import random
from decimal import Decimal, getcontext
from fractions import Fraction

import z3

from symx import *  # noqa: F403
from symx.runner import Unit, restore_shadows, shadow

PROPERTY = 'C16'
EXPLANATION = ('shape.point_polygon_check runs with a fully symbolic real test point (and a symbolic tolerance) against a concrete '
               'polygon; sqrt is abstracted by a memoised non-negative real per argument term with, per edge, the lemma '
               '"detour(a,b,p) = 0 (up to 1e-12) iff p lies on the closed segment ab, otherwise > -1e-12" (any metric consistent with '
               'the lemma is admitted, so unsat holds a fortiori for the Euclidean one). Asserted: result = 0 iff some edge has '
               'detour < tolerance; otherwise result = +1 iff the crossing number, written independently in z3 with the opposite '
               'half-open convention, is odd - for every real point, including points level with vertices and collinear with edges.')
OUTSIDE = ('symbolic polygon vertices (bilinear cross products: z3 answers unknown, probed); float rounding of the detour sum within '
           '1e-12 of the tolerance; tolerance below 1e-6.')
GETCTX = getcontext()
GETCTX.prec = 60


def setup():
    import ghedesigner.shape as SH
    shadow(SH, 'sqrt', sym_sqrt)


def cross(a, b, c):
    return (b[0] - a[0]) * (c[1] - a[1]) - (b[1] - a[1]) * (c[0] - a[0])


def make_fn(poly, twin=False, fixed_tol=None, closed=False, prior=None):
    xs = [p[0] for p in poly]
    ys = [p[1] for p in poly]

    def fn(e):
        import ghedesigner.shape as SH
        px = e.real('px', min(xs) - 1.5, max(xs) + 1.5)
        py = e.real('py', min(ys) - 1.5, max(ys) + 1.5)
        tol = e.real('tol', 1e-6, 0.1) if fixed_tol is None else fixed_tol
        p = (px, py)
        VF = [(float(x), float(y)) for x, y in poly]                 # what the code receives
        V = [(Fraction(x), Fraction(y)) for x, y in VF]              # the same numbers, exact, for the oracle side
        n = len(V)
        detours = []
        for i in range(n):
            a, b = V[i - 1], V[i]
            af, bf = VF[i - 1], VF[i]
            # same argument terms as shape.distance builds, so the memoised abstract distances coincide
            d1 = sym_sqrt((af[0] - p[0]) ** 2 + (af[1] - p[1]) ** 2)
            d2 = sym_sqrt((bf[0] - p[0]) ** 2 + (bf[1] - p[1]) ** 2)
            lab = math.sqrt((af[0] - bf[0]) ** 2 + (af[1] - bf[1]) ** 2)
            det = d1 + d2 - lab
            onseg = z3.And(tobool(cross(a, b, p) == 0), tobool((p[0] - a[0]) * (p[0] - b[0]) <= 0),
                           tobool((p[1] - a[1]) * (p[1] - b[1]) <= 0))
            e.add(z3.Implies(onseg, z3.And(det.t <= 1e-12, det.t >= -1e-12)))
            e.add(z3.Implies(z3.Not(onseg), det.t > -1e-12))
            # a point off the closed segment has a strictly positive true detour; it can only be below the tolerance
            # if it is near the segment - no further geometry is needed for the crossing part
            detours.append(det)
            # counterexamples are preferred at least 0.05 away from the line of every edge (robust to the abstraction)
            cr = cross(a, b, p)
            e.prefer.append(z3.Or(lift(cr) >= 0.05 * lab, lift(cr) <= -0.05 * lab))
        ring = [tuple(v) for v in VF]
        if closed:
            # the same polygon given as a closed ring (first vertex repeated): the zero-length edge contributes 2 |p - v0|, which by the
            # triangle inequality is at least the detour of either edge at v0 (lemma for the abstract distances)
            ring = ring + [ring[0]]
            d0 = sym_sqrt((VF[0][0] - p[0]) ** 2 + (VF[0][1] - p[1]) ** 2)
            e.add(z3.And((2 * d0).t >= detours[0].t, (2 * d0).t >= detours[1 % n].t))
        if prior is not None:
            # history: the same list object held another polygon (same number of vertices) when it was checked before, and was then
            # refilled in place - the answer may depend on the polygon's value and the point only
            work = [(float(x), float(y)) for x, y in prior]
            if closed:
                work = work + [work[0]]
            SH.point_polygon_check(work, (sum(v[0] for v in work) / len(work), sum(v[1] for v in work) / len(work)), on_edge_tolerance=0.001)
            work[:] = ring
            ring = work
        r = SH.point_polygon_check(ring, p, on_edge_tolerance=tol)
        if twin:
            return False
        on_edge = z3.Or([tobool(abs(d) < tol) for d in detours])
        cnt = z3.IntVal(0)
        for i in range(n):
            a, b = V[i], V[(i + 1) % n]
            up = z3.And(tobool(a[1] <= p[1]), tobool(p[1] < b[1]), tobool(cross(a, b, p) > 0))
            dn = z3.And(tobool(b[1] <= p[1]), tobool(p[1] < a[1]), tobool(cross(a, b, p) < 0))
            cnt = cnt + z3.If(z3.Or(up, dn), 1, 0)
        exp = z3.If(on_edge, 0, z3.If(cnt % 2 == 1, 1, -1))
        return SymBool(exp == lift(r))
    return fn


def exact_oracle(poly, px, py, tol):
    """independent exact classification: (result, margin to the tolerance band)"""
    P = (Fraction(px), Fraction(py))
    V = [(Fraction(x), Fraction(y)) for x, y in poly]
    n = len(V)
    dmin = None
    for i in range(n):
        a, b = V[i - 1], V[i]
        def dist(u, w):
            return (Decimal((u[0] - w[0]).numerator) / Decimal((u[0] - w[0]).denominator)) ** 2 + \
                   (Decimal((u[1] - w[1]).numerator) / Decimal((u[1] - w[1]).denominator)) ** 2
        det = dist(a, P).sqrt() + dist(b, P).sqrt() - dist(a, b).sqrt()
        dmin = det if dmin is None or det < dmin else dmin
    margin = abs(float(dmin) - tol)
    if dmin < Decimal(tol):
        return 0, margin
    cnt = 0
    for i in range(n):
        a, b = V[i], V[(i + 1) % n]
        c = cross(a, b, P)
        if (a[1] <= P[1] < b[1] and c > 0) or (b[1] <= P[1] < a[1] and c < 0):
            cnt += 1
    return (1 if cnt % 2 else -1), margin


def make_replay(poly, fixed_tol=None, closed=False, prior=None):
    def replay(model, notes):
        restore_shadows()
        from ghedesigner.shape import point_polygon_check
        px, py = float(model['px']), float(model['py'])
        tol = float(model['tol']) if fixed_tol is None else fixed_tol
        ring = [tuple(map(float, v)) for v in poly]
        ring = ring + [ring[0]] if closed else ring
        if prior is not None:
            work = [(float(x), float(y)) for x, y in prior]
            if closed:
                work = work + [work[0]]
            point_polygon_check(work, (sum(v[0] for v in work) / len(work), sum(v[1] for v in work) / len(work)), on_edge_tolerance=0.001)
            work[:] = ring
            ring = work
        got = point_polygon_check(ring, (px, py), on_edge_tolerance=tol)
        exp, margin = exact_oracle(poly, px, py, tol)
        if margin < 1e-11:
            return False, dict(note='within 1e-11 of the tolerance band (outside the claim)', got=got, expected=exp)
        return got != exp, dict(point=(px, py), tol=tol, got=got, expected=exp, polygon=poly)
    return replay


# -- polygon catalogues -----------------------------------------------------------------------------------
def seg_intersect(p1, p2, p3, p4):
    """proper or improper intersection of closed segments (integers / fractions)"""
    def orient(a, b, c):
        v = cross(a, b, c)
        return (v > 0) - (v < 0)

    def on(a, b, c):
        return min(a[0], b[0]) <= c[0] <= max(a[0], b[0]) and min(a[1], b[1]) <= c[1] <= max(a[1], b[1])
    o1, o2, o3, o4 = orient(p1, p2, p3), orient(p1, p2, p4), orient(p3, p4, p1), orient(p3, p4, p2)
    if o1 != o2 and o3 != o4:
        return True
    return (o1 == 0 and on(p1, p2, p3)) or (o2 == 0 and on(p1, p2, p4)) or (o3 == 0 and on(p3, p4, p1)) or (o4 == 0 and on(p3, p4, p2))


def is_simple(poly):
    n = len(poly)
    if len(set(poly)) != n:
        return False
    for i in range(n):
        if cross(poly[i - 1], poly[i], poly[(i + 1) % n]) == 0:
            return False      # degenerate (collinear consecutive vertices give zero-area spikes / redundant vertices)
    for i in range(n):
        for j in range(i + 1, n):
            if j == i or (j + 1) % n == i or (i + 1) % n == j:
                continue
            if seg_intersect(poly[i], poly[(i + 1) % n], poly[j], poly[(j + 1) % n]):
                return False
    return True


def lattice_polygons(nv, size=4):
    pts = [(x, y) for x in range(size) for y in range(size)]
    seen = set()
    out = []
    for combo in itertools.permutations(pts, nv):
        if combo[0] != min(combo):
            continue                      # rotation-normalised: start at the smallest vertex
        if not is_simple(combo):
            continue
        out.append(combo)                 # both orientations are kept (they are different vertex orders)
    return out


HAND = {
    'tri': [(0, 0), (3, 0), (1, 2)],
    'tri_cw': [(0, 0), (1, 2), (3, 0)],
    'sq_cw': [(0, 0), (0, 3), (3, 3), (3, 0)],
    'sq_ccw': [(0, 0), (3, 0), (3, 3), (0, 3)],
    'L': [(0, 0), (3, 0), (3, 1), (1, 1), (1, 3), (0, 3)],
    'U': [(0, 0), (4, 0), (4, 3), (3, 3), (3, 1), (1, 1), (1, 3), (0, 3)],
    'dart': [(0, 0), (2, 1), (4, 0), (2, 3)],
    'zigzag': [(0, 0), (1, 2), (2, 0), (3, 2), (4, 0), (4, 3), (0, 3)],
    'comb_levels': [(0, 0), (5, 0), (5, 2), (4, 2), (4, 1), (3, 1), (3, 2), (2, 2), (2, 1), (1, 1), (1, 2), (0, 2)],
    'real_valued': [(0.5, 0.25), (7.75, 1.5), (6.125, 5.5), (3.0, 3.25), (1.25, 6.0)],
    'repo_test_outline': [(0, 0), (10, 0), (10, 10), (0, 10)],
    'demo_property': [(19.46202532, 108.8860759), (19.67827004, 94.46835443), (24.65189873, 75.65400844), (37.19409283, 56.62341772),
                      (55.14240506, 40.18881857), (67.25210970, 32.18776371), (85.63291139, 20.07805907), (107.6898734, 11.86075949),
                      (126.2869198, 6.238396624), (142.721519, 3.859704641), (162.6160338, 2.345991561), (187.7004219, 1.913502110),
                      (198.0801688, 15.10443038), (199.5939873, 106.3291139)],
}


def units(tier, seed):
    rnd = random.Random(seed)
    F = ['shape.py:point_polygon_check']
    ST = ['math.sqrt -> abstract distance (fresh non-negative real per argument term) + per-edge detour lemma']
    AS = ['floats as reals; detour sum rounding within 1e-12 of the tolerance is outside the claim']
    us = []
    for nm, poly in HAND.items():
        us.append(Unit('hand_' + nm, make_fn(poly), make_replay(poly), setup, F,
                       'polygon %s (%d vertices) concrete; test point: all reals in the bounding box +-1.5; tolerance all reals in [1e-6, 0.1]' % (nm, len(poly)),
                       AS, ST, max_seconds=600))
    for nm, poly in (HAND.items() if tier == 'thorough' else list(HAND.items())[:4]):
        for start in ((0, 1) if tier == 'quick' else range(len(poly))):
            pr = list(poly[start:]) + list(poly[:start])        # the ring may start at any vertex
            us.append(Unit('closed_ring_%s_from%d' % (nm, start), make_fn(pr, closed=True), make_replay(pr, closed=True), setup, F,
                           'polygon %s given as a closed ring starting at vertex %d (first vertex repeated at the end); test point and tolerance as above' % (nm, start),
                           AS, ST + ['zero-length closing edge: 2|p - v0| >= detour of the edges at v0 (triangle inequality)'], max_seconds=600))
    for nm, poly in (HAND.items() if tier == 'thorough' else list(HAND.items())[:3]):
        for closed in ((False, True) if tier == 'thorough' else (False,)):
            prior = [(2 * x + 1, 2 * y) for x, y in poly]        # another polygon with the same number of vertices (stretched and shifted)
            us.append(Unit('reused_list_%s%s' % (nm, '_closed' if closed else ''), make_fn(poly, closed=closed, prior=prior), make_replay(poly, closed=closed, prior=prior), setup, F,
                           'polygon %s checked in a list object that held a stretched copy of it (same vertex count) during an earlier check and was refilled in place; test point and tolerance as above' % nm,
                           AS, ST, max_seconds=600))
    tri = lattice_polygons(3)
    quad = lattice_polygons(4)
    if tier == 'quick':
        sel = rnd.sample(tri, 20) + rnd.sample(quad, 28)
    else:
        pent = lattice_polygons(5, size=3)
        sel = tri + quad + rnd.sample(pent, min(len(pent), 300))
    for k, poly in enumerate(sel):
        if k % 4 == 0:
            us.append(Unit('lattice_closed_%dv_%s' % (len(poly), '_'.join('%d%d' % p for p in poly)), make_fn(poly, fixed_tol=0.01, closed=True),
                           make_replay(poly, fixed_tol=0.01, closed=True), setup, F,
                           'simple lattice polygon with %d vertices given as a closed ring; test point all reals in the box +-1.5; tolerance 0.01' % len(poly), AS, ST, max_seconds=300))
        us.append(Unit('lattice_%dv_%s' % (len(poly), '_'.join('%d%d' % p for p in poly)), make_fn(poly, fixed_tol=0.01), make_replay(poly, fixed_tol=0.01),
                       setup, F, 'simple lattice polygon with %d vertices on the 4x4 lattice; test point all reals in the box +-1.5; tolerance 0.01' % len(poly),
                       AS, ST, max_seconds=300))
    us.append(Unit('twin_reachability', make_fn(HAND['tri'], twin=True), None, setup, F, 'assert False must be violated', expect_cex=True))
    return us
