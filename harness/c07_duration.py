"""C07, duration clause: every peak duration is positive, finite and at most 48 h.

The real HybridLoad pipeline (split_heat_and_cool, split_loads_by_month, process_two_day_loads, find_peak_durations,
perform_current_month_simulation, simulate_hourly) runs on a raw 8760-hour profile with symbolic load magnitudes at catalogue
positions. The short-time response enters as the *concrete* g-function of a real borehole (computed natively by the real
RadialNumericalBH in the unit's setup), so the temporal superposition is linear in the loads; scipy's interp1d is replaced by its
contract (sort, linear segments, end-segment extrapolation)."""
import math
from types import SimpleNamespace as NS

from symx import *  # noqa: F403
from symx.runner import Unit, restore_shadows, shadow

from . import hybrid_common as HC
import z3

from .search_common import conj, implies

BOREHOLES = {
    # name: (H, r_b, pipe r_in, r_out, shank, k_soil, k_grout, flow L/s)
    'bh100': (100.0, 0.075, 0.0108, 0.013335, 0.0323, 2.0, 1.0, 0.5),
    'bh300_lowk': (300.0, 0.06, 0.0137, 0.0167, 0.02, 0.9, 0.7, 0.3),
}
_CACHE = {}


class NonFinite(ArithmeticError):
    pass


def native_borehole(name):
    """real bhe + radial model (native numpy/scipy/pygfunction); returns (bhe, radial)"""
    if name in _CACHE:
        return _CACHE[name]
    from ghedesigner.borehole import GHEBorehole
    from ghedesigner.borehole_heat_exchangers import SingleUTube
    from ghedesigner.media import GHEFluid, Grout, Pipe, Soil
    from ghedesigner.radial_numerical_borehole import RadialNumericalBH
    H, r_b, r_in, r_out, s, k_s, k_g, vf = BOREHOLES[name]
    fluid = GHEFluid(fluid_str='Water', percent=0.0)
    pipe = Pipe(Pipe.place_pipes(s, r_out, 1), r_in, r_out, s, 1e-6, 0.4, 1542000.0)
    bhe = SingleUTube(vf / 1000.0 * fluid.rho, fluid, GHEBorehole(H, 2.0, r_b, x=0.0, y=0.0), pipe, Grout(k_g, 3901000.0), Soil(k_s, 2343493.0, 18.3))
    rn = RadialNumericalBH(bhe)
    rn.calc_sts_g_functions(bhe)
    _CACHE[name] = (bhe, rn)
    return _CACHE[name]


class InterpContract:
    """scipy.interpolate.interp1d(x, y, fill_value='extrapolate'), linear, assume_sorted=False, scalar query"""

    def __init__(self, x, y, fill_value=None, **kw):
        if fill_value != 'extrapolate' or kw:
            raise Unsupported('interp1d contract: only the linear extrapolating form is modelled')
        x, y = list(x), list(y)
        # the abscissae must come out sorted; strictly increasing or tied neighbours are both followed
        self.ties = []
        for i in range(len(x) - 1):
            if x[i] < x[i + 1]:
                self.ties.append(False)
            elif x[i] == x[i + 1]:
                self.ties.append(True)
            else:
                raise Unsupported('interp1d contract: unsorted abscissae (argsort not modelled)')
        self.x, self.y = x, y

    def __call__(self, v):
        x, y = self.x, self.y
        n = len(x)
        idx = n - 1
        for k in range(1, n - 1):           # searchsorted(x, v, 'left') clipped to [1, n-1]
            if v <= x[k]:
                idx = k
                break
        lo, hi = idx - 1, idx
        if self.ties[lo]:
            raise NonFinite('interp1d: zero-width segment [%d,%d] => inf/nan' % (lo, hi))
        val = y[lo] + (y[hi] - y[lo]) / (x[hi] - x[lo]) * (v - x[lo])
        return NS(tolist=lambda: val)


def dur_setup_for(bname):
    def setup():
        HC.setup()
        import ghedesigner.ground_loads as GL
        bhe, rn = native_borehole(bname)
        rb = float(bhe.calc_effective_borehole_resistance())
        real_g = rn.g_sts

        def g_sts(arr):
            import numpy
            return HC.Arr([float(z) for z in real_g(numpy.array([float(a) for a in arr], dtype=float))])
        shadow(GL, 'interp1d', InterpContract)
        shadow(GL.HybridLoad, 'process_month_loads', lambda self: None)
        shadow(GL, 'DUR_CTX', NS(bhe=NS(soil=NS(k=float(bhe.soil.k)), calc_effective_borehole_resistance=lambda: rb),
                                 radial=NS(t_s=float(rn.t_s), g_sts=g_sts)))
    return setup


class DurScenario:
    """extraction (sign +1) or rejection (-1) loads at catalogue hours of month m; exactly one of them symbolic, the others concrete
    (keeps every verification condition a polynomial in one unknown - see DESIGN)"""

    def __init__(self, m, sign, peak_day, base, others, concrete, peak_hour=4):
        self.m, self.sign, self.peak_day, self.base, self.others, self.peak_hour = m, sign, peak_day, base, tuple(others), peak_hour
        self.concrete = dict(concrete)          # name -> W
        self.h_peak = HC.CUM[m - 1] + 24 * peak_day + peak_hour
        # other loads as offsets (in hours) from the peak hour
        self.h_others = [(self.h_peak + off) % 8760 for off in self.others]

    def name(self):
        return 'm%d_%s_day%d_%s_off%s_%s' % (self.m, 'ext' if self.sign > 0 else 'rej', self.peak_day, self.base, '_'.join(str(o) for o in self.others),
                                             '_'.join('%s%g' % (k.replace('_', ''), w) for k, w in sorted(self.concrete.items())))


def run_dur(v, sc):
    import ghedesigner.ground_loads as GL
    raw = HC.base_profile(sc.base)

    def val(name):
        if name in sc.concrete:
            return float(sc.concrete[name])
        q = v.real(name, 0, 1.0e6)
        v.assume(q > 0)
        return q
    raw[sc.h_peak] = sc.sign * val('q_peak')
    for k, h in enumerate(sc.h_others):
        raw[h] = sc.sign * val('q%d' % (k + 1))
    sp = NS(start_month=1, end_month=12)
    if v.sym:
        ctx = GL.DUR_CTX
        hl = GL.HybridLoad(list(raw), ctx.bhe, ctx.radial, sp)
    else:
        hl = None
    return hl, raw


def dur_checks(hl):
    c = []
    for i in range(1, 13):
        for pk, du in ((hl.monthly_peak_cl[i], hl.monthly_peak_cl_duration[i]), (hl.monthly_peak_hl[i], hl.monthly_peak_hl_duration[i])):
            c.append((du > 0) & (du <= 48))
    return c


def _dir_load(x, sign):
    """kW in the given direction, as split_heat_and_cool defines it (raw W, extraction positive)"""
    if isinstance(x, Sym):
        return x / 1000.0 * sign          # the symbolic entries are sign * (positive magnitude)
    if sign > 0:
        return x / 1000.0 if x >= 0.0 else 0.0
    return -x / 1000.0 if x < 0.0 else 0.0


def _zmax(terms):
    t = terms[0]
    for u in terms[1:]:
        t = ite(u > t, u, t)
    return t


def equivalence_checks(sc, hl, raw, ctx):
    """Cullin-Spitler equivalence for the unit's month and direction, written independently from the raw profile: the duration d is
    the time at which the response to the constant load (peak - average), linear between the hourly values, equals the maximum of the
    response to the peak-scaled two-day profile (q_i - average) q_i / peak; 1e-6 if that maximum is not positive. Claimed when no load
    of the two-day window exceeds the monthly peak (otherwise the code scales by the larger load)."""
    m, sign = sc.m, sc.sign
    h0, h1 = HC.CUM[m - 1], HC.CUM[m]
    month = [_dir_load(raw[h], sign) for h in range(h0, h1)]
    avg = sum(month) / len(month)
    peak = hl.monthly_peak_hl[m] if sign > 0 else hl.monthly_peak_cl[m]
    day = hl.monthly_peak_hl_day[m] if sign > 0 else hl.monthly_peak_cl_day[m]
    d = hl.monthly_peak_hl_duration[m] if sign > 0 else hl.monthly_peak_cl_duration[m]
    day = int(day)
    start = h0 + (day - 1) * 24
    w = [0.0] + [_dir_load(raw[(start + j) % 8760], sign) for j in range(48)]
    no_larger = conj([x <= peak for x in w if isinstance(x, Sym)] + [bool(x <= peak) if not isinstance(peak, Sym) else (x <= peak) for x in w if not isinstance(x, Sym) and x > 0])
    from ghedesigner.constants import TWO_PI
    if not bool(no_larger):            # fork: on this side the code scales by the larger window load - not claimed
        return [True]
    two_pi_k = TWO_PI * ctx.bhe.soil.k
    rb = ctx.bhe.calc_effective_borehole_resistance()
    ts = ctx.radial.t_s
    # concrete float operations in the order the code performs them (binary64 results are exact rationals here: an ulp matters)
    g = [0.0] + [ctx.radial.g_sts([math.log((n * 3600) / ts)])[0] for n in range(1, 49)]
    big_q = peak - avg
    nominal = [0.0] + [(w[i] - avg) / peak * w[i] for i in range(1, 49)]

    def response(q):
        out = [0]
        for n in range(1, 49):
            acc = 0
            for i in range(n):
                a, b = (q[i + 1] - q[i]) / two_pi_k, g[n - i]
                if isinstance(a, Sym) or (a != 0 and b != 0):
                    acc = acc + a * b
            out.append(acc + q[n] * rb)
        return out
    t_nom = response(nominal)
    t_pk = response([0.0] + [big_q] * 48)
    t_max = _zmax([lift_sym(x) for x in t_nom])
    on_curve = []
    for j in range(48):
        # binary64 rounding in the concrete parts of the code's interpolation (slope of a concrete segment): relative 1e-9
        r = t_pk[j] + (d - j) * (t_pk[j + 1] - t_pk[j]) - t_max
        on_curve.append(implies((d >= j) & (d <= j + 1), (r <= 1e-9 * t_max) & (r >= -1e-9 * t_max)))
    eq = ite_bool(t_max > 0, conj(on_curve), d == 1.0e-6)
    return [eq]


def lift_sym(x):
    return x if isinstance(x, Sym) else Sym(lift(float(x)))


def ite_bool(c, a, b):
    c = c if isinstance(c, SymBool) else SymBool(z3.BoolVal(bool(c)))
    a = a if isinstance(a, SymBool) else SymBool(z3.BoolVal(bool(a)))
    b = b if isinstance(b, SymBool) else SymBool(z3.BoolVal(bool(b)))
    return SymBool(z3.If(c.t, a.t, b.t))


def dur_fn(sc, twin=False, equivalence=True):
    def fn(e):
        import ghedesigner.ground_loads as GL
        v = HC.Vals(e=e)
        try:
            hl, raw = run_dur(v, sc)
        except NonFinite as ex:
            e.notes['nonfinite'] = str(ex)
            return False
        if twin:
            return False
        cs = dur_checks(hl)
        # the equivalence stays polynomial (decidable in practice) only when peak, average and hence the constant-load response are
        # concrete: monthly peak concrete and the symbolic load in the previous month; elsewhere z3 answers unknown - not claimed there
        if equivalence and 'q_peak' in sc.concrete and sc.peak_day == 0 and all(o < -sc.peak_hour for o in sc.others):
            cs += equivalence_checks(sc, hl, raw, GL.DUR_CTX)
        return conj(cs)
    return fn


def dur_replay(sc, bname):
    def replay(model, notes):
        restore_shadows()
        import warnings

        import ghedesigner.ground_loads as GL
        bhe, rn = native_borehole(bname)
        v = HC.Vals(model=model)
        _, raw = run_dur(v, sc)
        with warnings.catch_warnings():
            warnings.simplefilter('ignore')
            hl = GL.HybridLoad(list(raw), bhe, rn, NS(start_month=1, end_month=12))
        bad = {}
        for i in range(1, 13):
            for nm, du in (('rejection', hl.monthly_peak_cl_duration[i]), ('extraction', hl.monthly_peak_hl_duration[i])):
                d = float(du)
                if not (d > 0 and d <= 48.0 + 1e-9) or math.isnan(d) or math.isinf(d):
                    bad['month %d %s' % (i, nm)] = repr(d)
        eqv = native_equivalence(sc, raw, hl, bhe, rn)
        return bool(bad) or eqv is not None, dict(durations_outside=bad, equivalence=eqv, inputs=model)
    return replay


def native_equivalence(sc, raw, hl, bhe, rn):
    """binary64 re-computation of the Cullin-Spitler equivalence from the raw profile with the real g-function (numpy); returns a
    description of the mismatch or None"""
    import numpy as np
    m, sign = sc.m, sc.sign
    h0, h1 = HC.CUM[m - 1], HC.CUM[m]
    month = [_dir_load(float(raw[h]), sign) for h in range(h0, h1)]
    avg, peak = sum(month) / len(month), max(month)
    day = month.index(peak) // 24
    d = float(hl.monthly_peak_hl_duration[m] if sign > 0 else hl.monthly_peak_cl_duration[m])
    start = h0 + (day - 1) * 24
    w = [0.0] + [_dir_load(float(raw[(start + j) % 8760]), sign) for j in range(48)]
    if max(w) > peak or peak <= 0:
        return None
    two_pi_k, rb, ts = 2.0 * np.pi * bhe.soil.k, float(bhe.calc_effective_borehole_resistance()), rn.t_s
    g = [0.0] + [float(rn.g_sts(np.log(n * 3600.0 / ts))) for n in range(1, 49)]

    def response(q):
        return [0.0] + [sum((q[i + 1] - q[i]) / two_pi_k * g[n - i] for i in range(n)) + q[n] * rb for n in range(1, 49)]
    t_nom = response([0.0] + [(w[i] - avg) / peak * w[i] for i in range(1, 49)])
    t_pk = response([0.0] + [peak - avg] * 48)
    t_max = max(t_nom)
    if t_max <= 0:
        return None if abs(d - 1.0e-6) < 1e-12 else 'no positive nominal response but duration %r' % d
    if not (0 < d <= 48):
        return None       # reported by the duration clause
    j = min(int(d), 47)
    got = t_pk[j] + (d - j) * (t_pk[j + 1] - t_pk[j])
    if abs(got - t_max) > 1e-6 * abs(t_max):
        return 'constant-load response at the reported duration %.6f h is %.9g K, maximum of the peak-scaled two-day response is %.9g K' % (d, got, t_max)
    return None


def dur_scenarios(tier):
    scs = []
    months = [2] if tier == 'quick' else [1, 2, 7]
    for m in months:
        last = HC.DIM[m] - 1
        for sign in (1, -1):
            flat = 'heat' if sign > 0 else 'cool'
            f = 2000.0 if sign > 0 else 1500.0
            # (a) the monthly peak concrete (barely above a flat month / well above it), a load on the previous day symbolic
            for pk in ((f + 50.0, 5000.0) if tier == 'quick' else (f + 50.0, f + 0.5, 5000.0)):
                scs.append(DurScenario(m, sign, 0, flat, (-18,), {'q_peak': pk}))              # previous day = previous month
                if pk == 5000.0:      # same-month symbolic load (symbolic average): decidable for a peak well above the base only (z3 unknown at 0.5 W above it)
                    scs.append(DurScenario(m, sign, 10 if tier == 'quick' else last, flat, (-20,), {'q_peak': pk}))   # previous day in the same month
                    scs.append(DurScenario(m, sign, 0, 'zero', (-18,), {'q_peak': pk}))
            # (b) the monthly peak symbolic, the previous-day load concrete
            for q1 in ((f + 90.0,) if tier == 'quick' else (f + 90.0, 100.0, 9000.0)):
                scs.append(DurScenario(m, sign, 0, flat, (-18,), {'q1': q1}))
                # (same-month / mixed-profile variants with a symbolic peak did not finish within 15 min per unit: not registered)
    return scs


FUNCS = ['ground_loads.py:HybridLoad.__init__', 'ground_loads.py:HybridLoad.split_heat_and_cool', 'ground_loads.py:HybridLoad.split_loads_by_month',
         'ground_loads.py:HybridLoad.process_two_day_loads', 'ground_loads.py:HybridLoad.find_peak_durations',
         'ground_loads.py:HybridLoad.perform_current_month_simulation', 'ground_loads.py:HybridLoad.simulate_hourly']
STUBS = ['numpy -> exact list facade', 'scipy interp1d -> its contract: sorted abscissae, linear segment chosen by searchsorted-left clipped to [1,n-1], end-segment '
         'extrapolation; a zero-width segment is a non-finite result',
         'short-time g-function, t_s, R_b*, k_soil: concrete values of a real borehole computed natively by RadialNumericalBH / pygfunction in the setup',
         'process_month_loads -> no-op (not the subject of this unit)']


def units(tier):
    us = []
    bnames = ['bh100'] if tier == 'quick' else list(BOREHOLES)
    for bname in bnames:
        for sc in dur_scenarios(tier):
            us.append(Unit('dur_%s_%s' % (bname, sc.name()), dur_fn(sc), dur_replay(sc, bname), dur_setup_for(bname), FUNCS,
                           'borehole %s concrete; raw profile %s; %s loads at the peak hour (day %d, hour %d of month %d) and at hour offsets %s from it; concrete: %s W, '
                           'the other one symbolic, all reals in (0,1e6] W' % (bname, sc.base, 'extraction' if sc.sign > 0 else 'rejection', sc.peak_day, sc.peak_hour,
                                                                               sc.m, list(sc.others), sc.concrete),
                           ['floats as reals (the superposition sums are exact rationals here, binary64 natively)'], STUBS, max_seconds=900))
    sc0 = dur_scenarios(tier)[0]
    us.append(Unit('dur_twin_reachability', dur_fn(sc0, twin=True), None, dur_setup_for('bh100'), FUNCS, 'assert False must be violated', expect_cex=True))
    return us
