"""C11 - combined g-function is well formed and interpolation-consistent (decidable part)."""
from types import SimpleNamespace as NS

import z3

from symx import *  # noqa: F403
from symx.runner import Unit, restore_shadows, shadow

from .search_common import conj, disj, implies

PROPERTY = 'C11'
EXPLANATION = ('BaseGHE.combine_sts_lts, BaseGHE.grab_g_function, GFunction.g_function_interpolation and '
               'GFunction.borehole_radius_correction run on symbolic short-time/long-time axes and values, symbolic stored heights and '
               'radii; scipy interp1d is replaced by its node contract (passes through its nodes; in range without fill value, '
               'ValueError outside; uninterpreted in between). Asserted: joined axis strictly increasing, every long-time point present '
               'with its radius-corrected value, the short-time points kept are exactly those below the first long-time point with their '
               'own values; interpolating at a stored height returns the stored curve and radius (1..5 stored heights, every kind branch); '
               'radius correction is the identity for equal radii and additive in ln(radius ratio).')
OUTSIDE = ('the finite-line-source / UHTR 1e-4 anchor and the 20 % MIFT clause as numbers (pygfunction numerics; only that the family is computed under the boundary condition, solver and segment options that were asked for is decided: long_time_family_* units); accuracy of scipy splines between '
           'nodes; a short-time point exactly equal to the first long-time point (measure-zero tie: duplicate abscissa / IndexError, stated '
           'as an assumption).')

ESK = [-8.5, -7.8, -7.2, -6.5, -5.9, -5.2, -4.5, -3.963, -3.27, -2.864, -2.577, -2.171, -1.884, -1.191, -0.497, -0.274, -0.051, 0.196, 0.419,
       0.642, 0.873, 1.112, 1.335, 1.679, 2.028, 2.275, 3.003]
INTERP = z3.Function('INTERP', z3.IntSort(), z3.RealSort(), z3.RealSort())
_TABLES = []


class Interp:
    """interp1d contract: exact at the nodes; inside the node range an uninterpreted function of (table, argument);
    outside: ValueError unless fill_value == 'extrapolate'"""

    def __init__(self, x, y, kind='linear', fill_value=None, **kw):
        self.x, self.y, self.kind, self.fill_value = list(x), list(y), kind, fill_value
        if len(self.x) != len(self.y):
            raise ValueError('x and y arrays must be equal in length along interpolation axis.')
        need = {'linear': 2, 'quadratic': 3, 'cubic': 4}.get(kind, 2)
        if len(self.x) < need:
            raise ValueError('The number of derivatives at boundaries does not match: expected %d nodes' % need)
        self.id = len(_TABLES)
        _TABLES.append(self)

    def __call__(self, h):
        lo, hi = sym_min(self.x), sym_max(self.x)
        inside = (h >= lo) & (h <= hi)
        if not bool(inside) and self.fill_value != 'extrapolate':
            raise ValueError('A value in x_new is outside the interpolation range.')
        val = Sym(INTERP(self.id, toreal(lift(h))))
        for xn, yn in zip(self.x, self.y):
            val = ite(h == xn, yn, val)
        return NS(tolist=lambda: val)


class Col(list):
    def tolist(self):
        return list(self)


def setup():
    import ghedesigner.gfunction as GFM
    import ghedesigner.ground_heat_exchangers as G
    shadow(G, 'interp1d', Interp)
    shadow(GFM, 'interp1d', Interp)
    shadow(G, 'max', sym_max)
    shadow(G, 'min', sym_min)
    shadow(GFM, 'max', sym_max)
    shadow(GFM, 'min', sym_min)
    shadow(GFM, 'abs', abs)
    shadow(GFM, 'log', sym_log_product)
    shadow(GFM, 'float', sym_float)
    shadow(GFM, 'warnings', NS(warn=lambda *a, **k: None))
    del _TABLES[:]


def increasing(e, xs):
    for a, b in zip(xs, xs[1:]):
        e.assume(a < b)


# -- combine_sts_lts ---------------------------------------------------------------------------------------
def combine_fn(k, lts_kind, twin=False):
    def fn(e):
        import ghedesigner.ground_heat_exchangers as G
        sts_t = [e.real('s%d' % i, -20, 5) for i in range(k)]
        sts_g = [e.real('gs%d' % i) for i in range(k)]
        increasing(e, sts_t)
        if lts_kind == 'eskilson':
            lts_t = list(ESK)
            lts_g = [e.real('gl%d' % i) for i in range(3)] + [float(i) for i in range(3, len(ESK))]
        else:
            lts_t = [e.real('l%d' % i, -20, 5) for i in range(5)]
            increasing(e, lts_t)
            lts_g = [e.real('gl%d' % i) for i in range(5)]
        first = lts_t[0]
        # stated assumption: no short-time point coincides exactly with the first long-time point
        for s in sts_t:
            e.assume(s != first)
        g = G.BaseGHE.combine_sts_lts(list(lts_t), list(lts_g), list(sts_t), list(sts_g))
        if twin:
            return False
        x, y = g.x, g.y
        cs = [len(x) == len(y)]
        cs += [a < b for a, b in zip(x, x[1:])]                                   # strictly increasing
        nl = len(lts_t)
        cs.append(len(x) >= nl)
        tail_x, tail_y = x[len(x) - nl:], y[len(y) - nl:]
        cs += [conj([a == b, c == d]) for a, b, c, d in zip(tail_x, lts_t, tail_y, lts_g)]   # long-time part reproduced
        kept = len(x) - nl
        # the kept short-time points are the first `kept` ones, with their own values, all below the first long-time point,
        # and no short-time point below the first long-time point was dropped
        cs += [conj([x[i] == sts_t[i], y[i] == sts_g[i], sts_t[i] < first]) for i in range(kept)]
        cs += [sts_t[i] > first for i in range(kept, k)]
        return conj(cs)
    return fn


def combine_replay(k, lts_kind):
    def replay(model, notes):
        restore_shadows()
        from ghedesigner.ground_heat_exchangers import BaseGHE
        sts_t = [float(model['s%d' % i]) for i in range(k)]
        sts_g = [float(model['gs%d' % i]) for i in range(k)]
        if lts_kind == 'eskilson':
            lts_t = list(ESK)
            lts_g = [float(model['gl%d' % i]) for i in range(3)] + [float(i) for i in range(3, len(ESK))]
        else:
            lts_t = [float(model['l%d' % i]) for i in range(5)]
            lts_g = [float(model['gl%d' % i]) for i in range(5)]
        try:
            g = BaseGHE.combine_sts_lts(lts_t, lts_g, sts_t, sts_g)
        except Exception as ex:  # noqa: BLE001
            return True, dict(exception='%s: %s' % (type(ex).__name__, ex), sts=sts_t, lts0=lts_t[0])
        x, y = list(g.x), list(g.y)
        nl = len(lts_t)
        kept = len(x) - nl
        first = lts_t[0]
        ok = all(a < b for a, b in zip(x, x[1:])) and x[kept:] == lts_t and y[kept:] == lts_g and x[:kept] == sts_t[:kept] and \
            y[:kept] == sts_g[:kept] and all(s < first for s in sts_t[:kept]) and all(s > first for s in sts_t[kept:])
        return not ok, dict(x=x[:12], kept=kept, sts=sts_t, first_lts=first)
    return replay


# -- g_function_interpolation at a stored height -----------------------------------------------------------------
def interp_fn(n_curves, n_times=3):
    def fn(e):
        from ghedesigner.gfunction import GFunction
        del _TABLES[:]
        hs = [e.real('H%d' % i, 20, 400) for i in range(n_curves)]
        for a, b in zip(hs, hs[1:]):
            e.assume(b - a >= 0.01)       # stored heights are distinct well beyond the snapping tolerances (1e-6, 1e-3)
        B = e.real('B', 0.05, 30)
        g_lts, rbs = {}, {}
        for i, h in enumerate(hs):
            g_lts[h] = [e.real('g%d_%d' % (i, t)) for t in range(n_times)]
            rbs[h] = e.real('rb%d' % i, 0.03, 0.2)
        gf = GFunction(B, 2.0, rbs, g_lts, [-8.5, -7.8, -7.2][:n_times], [(0.0, 0.0)])
        j = e.int('j', 0, n_curves - 1).__index__()
        hq = hs[j]
        gq, rbq, dq, heq = gf.g_function_interpolation(B / hq)
        cs = [len(gq) == n_times, heq == hq]
        cs += [gq[t] == g_lts[hq][t] for t in range(n_times)]
        cs.append((rbq.tolist() if hasattr(rbq, 'tolist') else rbq) == rbs[hq])
        return conj(cs)
    return fn


def close(a, b, tol=1e-7):
    return abs(float(a) - float(b)) <= tol * (1.0 + abs(float(b)))


def interp_replay(n_curves, n_times=3):
    def replay(model, notes):
        restore_shadows()
        import warnings
        from ghedesigner.gfunction import GFunction
        hs = [float(model['H%d' % i]) for i in range(n_curves)]
        B = float(model['B'])
        g_lts = {h: [float(model['g%d_%d' % (i, t)]) for t in range(n_times)] for i, h in enumerate(hs)}
        rbs = {h: float(model['rb%d' % i]) for i, h in enumerate(hs)}
        gf = GFunction(B, 2.0, rbs, g_lts, [-8.5, -7.8, -7.2][:n_times], [(0.0, 0.0)])
        hq = hs[int(model['j'])]
        try:
            with warnings.catch_warnings():
                warnings.simplefilter('ignore')
                gq, rbq, dq, heq = gf.g_function_interpolation(B / hq)
        except Exception as ex:  # noqa: BLE001
            return True, dict(exception='%s: %s' % (type(ex).__name__, ex), heights=hs, query=hq)
        bad = len(gq) != n_times or not all(close(gq[t], g_lts[hq][t]) for t in range(n_times)) or not close(rbq, rbs[hq]) or not close(heq, hq, 1e-9)
        return bad, dict(heights=hs, query=hq, got=[float(x) for x in gq], stored=g_lts[hq], rb=float(rbq))
    return replay


def radius_replay(model, notes):
    restore_shadows()
    from ghedesigner.gfunction import GFunction
    g = [float(model['g%d' % i]) for i in range(3)]
    rb, r1, r2 = float(model['rb']), float(model['r1']), float(model['r2'])
    same = GFunction.borehole_radius_correction(list(g), rb, rb)
    step1 = GFunction.borehole_radius_correction(list(g), rb, r1)
    step2 = GFunction.borehole_radius_correction(step1, r1, r2)
    direct = GFunction.borehole_radius_correction(list(g), rb, r2)
    bad = not all(close(a, b, 1e-12) for a, b in zip(same, g)) or not all(close(a, b, 1e-12) for a, b in zip(step2, direct))
    if r1 > rb * (1 + 1e-9):
        bad = bad or not all(a < b for a, b in zip(step1, g))
    return bad, dict(g=g, radii=(rb, r1, r2), same=same, step1=step1, direct=direct)


def interp_cache_fn(e):
    """a second query on the same GFunction object (cached table) returns the same node values as a fresh object"""
    from ghedesigner.gfunction import GFunction
    hs = [e.real('H%d' % i, 20, 400) for i in range(3)]
    for a, b in zip(hs, hs[1:]):
        e.assume(b - a >= 0.01)
    B = e.real('B', 0.05, 30)
    g_lts = {h: [e.real('g%d' % i)] for i, h in enumerate(hs)}
    rbs = {h: 0.075 for h in hs}
    gf = GFunction(B, 2.0, rbs, g_lts, [-8.5], [(0.0, 0.0)])
    g1, _, _, _ = gf.g_function_interpolation(B / hs[0])
    g2, _, _, _ = gf.g_function_interpolation(B / hs[2])
    g3, _, _, _ = gf.g_function_interpolation(B / hs[1])
    return conj([g1[0] == g_lts[hs[0]][0], g2[0] == g_lts[hs[2]][0], g3[0] == g_lts[hs[1]][0]])


# -- borehole radius correction ---------------------------------------------------------------------------------
def radius_fn(e):
    from ghedesigner.gfunction import GFunction
    g = [e.real('g%d' % i) for i in range(3)]
    rb, r1, r2 = e.real('rb', 0.02, 0.3), e.real('r1', 0.02, 0.3), e.real('r2', 0.02, 0.3)
    same = GFunction.borehole_radius_correction(list(g), rb, rb)
    step1 = GFunction.borehole_radius_correction(list(g), rb, r1)
    step2 = GFunction.borehole_radius_correction(step1, r1, r2)
    direct = GFunction.borehole_radius_correction(list(g), rb, r2)
    cs = [len(same) == 3, len(direct) == 3]
    cs += [a == b for a, b in zip(same, g)]
    cs += [a == b for a, b in zip(step2, direct)]
    # larger target radius lowers g (ln monotone: encoded as the sign of L on ratios is not available; checked as antisymmetry)
    back = GFunction.borehole_radius_correction(direct, r2, rb)
    cs += [a == b for a, b in zip(back, g)]
    # ln is increasing (lemma instance for the uninterpreted L): a larger target radius lowers the curve
    e.add(z3.Implies(r1.t > rb.t, LN(r1.t) > LN(rb.t)))
    cs += [implies(r1 > rb, a < b) for a, b in zip(step1, g)]
    return conj(cs)


# -- grab_g_function: glue ---------------------------------------------------------------------------------------
def grab_fn(e):
    import ghedesigner.ground_heat_exchangers as G
    from ghedesigner.gfunction import GFunction
    H = e.real('H', 20, 400)
    B = e.real('B', 0.05, 30)
    rb_tab, rb_star = e.real('rb', 0.02, 0.3), e.real('rbs', 0.02, 0.3)
    lts_t = [e.real('l%d' % i, -20, 5) for i in range(3)]
    increasing(e, lts_t)
    lts_g = [e.real('gl%d' % i) for i in range(3)]
    sts_t = [e.real('s%d' % i, -20, 5) for i in range(2)]
    increasing(e, sts_t)
    for s in sts_t:
        e.assume(s != lts_t[0])
    sts_g = [e.real('gs%d' % i) for i in range(2)]
    sts_b = [e.real('gb%d' % i) for i in range(2)]
    gf = GFunction(B, 2.0, {H: rb_tab}, {H: list(lts_g)}, list(lts_t), [(0.0, 0.0)])
    ghe = G.BaseGHE.__new__(G.BaseGHE)
    ghe.gFunction = gf
    ghe.bhe = NS(b=NS(r_b=rb_star))
    ghe.radial_numerical = NS(lntts=Col(sts_t), g=Col(sts_g), g_bhw=Col(sts_b))
    g, g_bhw = ghe.grab_g_function(B / H)
    corr = GFunction.borehole_radius_correction(list(lts_g), rb_tab, rb_star)
    n = len(g.x)
    cs = [len(g_bhw.x) == n, n >= 3]
    cs += [conj([g.x[n - 3 + i] == lts_t[i], g.y[n - 3 + i] == corr[i], g_bhw.x[n - 3 + i] == lts_t[i], g_bhw.y[n - 3 + i] == corr[i]]) for i in range(3)]
    cs += [conj([g.x[i] == sts_t[i], g.y[i] == sts_g[i], g_bhw.y[i] == sts_b[i]]) for i in range(n - 3)]
    return conj(cs)


# -- the stored long-time family is computed with the options that were asked for ---------------------------------------
def family_setup():
    import ghedesigner.gfunction as GFM
    import pygfunction as gt
    setup()

    def borehole(H, D, r_b, x, y, tilt=0.0, orientation=0.0):      # pygfunction's Borehole is a plain record (it only coerces to float)
        return NS(H=H, D=D, r_b=r_b, x=x, y=y, tilt=tilt, orientation=orientation)

    def bhe_token(bhe_type, m_flow, fluid, bh, pipe, grout, soil):
        return NS(kind=bhe_type, m_flow=m_flow, fluid=fluid, b=bh, pipe=pipe, grout=grout, soil=soil)

    def network(bore_field, bhes, m_flow_network=None, cp_f=None):
        return NS(is_network=True, field=bore_field, bhes=bhes, m_flow_network=m_flow_network, cp_f=cp_f)
    shadow(GFM, 'GHEBorehole', borehole)
    shadow(GFM, 'get_bhe_object', bhe_token)
    shadow(GFM, 'gt', NS(networks=NS(Network=network), gfunction=NS(gFunction=None), utilities=gt.utilities))


def family_fn(boundary, solver, segments, n_segments, own_ratios):
    def fn(e):
        """calc_g_func_for_multiple_lengths with pygfunction's gFunction as a recorder: every call must be handed what the caller
        asked for (boundary condition, solver, segment options), the field at *this* height, depth and radius, the times of this
        height's characteristic time; the stored family must hold exactly the values each call returned, under its height"""
        import numpy

        import ghedesigner.gfunction as GFM
        from ghedesigner.enums import BHPipeType
        from ghedesigner.media import Grout, Pipe, Soil
        calls = []

        class GFun:
            def __init__(self, first, alpha, time=None, boundary_condition=None, options=None, method=None):
                vals = [e.real('g_%d_%d' % (len(calls), j)) for j in range(len(list(time)))]
                calls.append(NS(first=first, alpha=alpha, time=list(time), bc=boundary_condition, options=options, method=method, vals=vals))
                self.gFunc = NS(tolist=lambda: list(vals))
        GFM.gt.gfunction.gFunction = GFun
        hs = [e.real('H%d' % i, 20.0, 400.0) for i in range(2)]
        e.assume(hs[0] + 1.0 <= hs[1])
        r_b, depth, m_flow, b = e.real('r_b', 0.03, 0.3), e.real('D', 0.5, 10.0), e.real('m_flow', 0.05, 2.0), e.real('B', 1.0, 30.0)
        k_s, rhocp = e.real('k_s', 0.5, 5.0), e.real('rhocp_s', 1.0e6, 4.0e6)
        fluid = NS(cp=e.real('cp_f', 3000.0, 4300.0), mu=1.0e-3, rho=998.0, k=0.6)
        pipe = Pipe(Pipe.place_pipes(0.0323, 0.0133, 1), 0.0108, 0.0133, 0.0323, 1e-6, 0.4, 1542000.0)
        grout, soil = Grout(1.0, 3901000.0), Soil(k_s, rhocp, 18.3)
        coords = [(0.0, 0.0), (5.5, 0.0), (0.0, 7.25)]
        log_time = [-8.5, -2.0, 3.003]
        ratios = numpy.array([0.1, 0.2, 0.4, 0.2, 0.1]) if own_ratios else None
        kw = dict(n_segments=n_segments, segments=segments, solver=solver, boundary=boundary)
        if own_ratios:
            kw['segment_ratios'] = ratios
        fam = GFM.calc_g_func_for_multiple_lengths(b, list(hs), r_b, depth, m_flow, BHPipeType.SINGLEUTUBE, list(log_time), list(coords), fluid, pipe, grout, soil, **kw)
        cs = [len(calls) == len(hs)]
        if len(calls) != len(hs):
            return False
        alpha = k_s / rhocp
        for h, c in zip(hs, calls):
            field = c.first.field if getattr(c.first, 'is_network', False) else c.first
            cs.append(c.bc == boundary)
            cs.append(c.method == solver)
            cs.append(c.options.get('nSegments') == n_segments)
            cs.append(('segment_ratios' in c.options) == (segments.lower() == 'unequal'))
            if own_ratios and segments.lower() == 'unequal':
                cs.append(c.options['segment_ratios'] is ratios)
            cs.append(getattr(c.first, 'is_network', False) == (boundary == 'MIFT'))
            if boundary == 'MIFT':
                cs += [c.first.m_flow_network == len(coords) * m_flow, c.first.cp_f == fluid.cp, len(c.first.bhes) == len(coords)]
                cs += [conj([t.m_flow == m_flow, t.b is bh]) for t, bh in zip(c.first.bhes, field)]
            cs.append(len(field) == len(coords))
            cs += [conj([bh.H == h, bh.D == depth, bh.r_b == r_b, bh.x == x, bh.y == y]) for bh, (x, y) in zip(field, coords)]
            cs.append(c.alpha == alpha)
            ts = h * h / (9.0 * alpha)
            cs += [t == float(numpy.exp(lt)) * ts for t, lt in zip(c.time, log_time)]
            stored = fam.g_lts[h]
            cs.append(len(stored) == len(c.vals))
            cs += [a == v for a, v in zip(stored, c.vals)]
            cs.append(fam.r_b_values[h] == r_b)
        cs += [fam.B == b, fam.d == depth, list(fam.log_time) == list(log_time), [tuple(p) for p in fam.bore_locations] == coords, len(fam.g_lts) == len(hs)]
        return conj(cs)
    return fn


def units(tier, seed):
    F = ['ground_heat_exchangers.py:BaseGHE.combine_sts_lts', 'ground_heat_exchangers.py:BaseGHE.grab_g_function',
         'gfunction.py:GFunction.g_function_interpolation', 'gfunction.py:GFunction.borehole_radius_correction']
    ST = ['scipy interp1d -> node contract (exact at nodes, uninterpreted inside the node range, ValueError outside unless extrapolate)',
          'math.log -> uninterpreted L with the product rule applied structurally to positive factors']
    AS = ['stored heights differ by at least 0.01 m', 'floats as reals (h_eq = 1/(B/H)*B equals H exactly over the reals; in floats it is within an ulp and the node value is approached by continuity)',
          'no short-time point equals the first long-time point exactly']
    us = []
    for k in ([1, 3, 6] if tier == 'quick' else [1, 2, 3, 4, 6, 8]):
        us.append(Unit('combine_eskilson_k%d' % k, combine_fn(k, 'eskilson'), combine_replay(k, 'eskilson'), setup, F[:1],
                       '%d short-time points (increasing, all reals in [-20,5]) against the 27 Eskilson points; values all reals' % k, AS, ST))
        us.append(Unit('combine_sym_k%d' % k, combine_fn(k, 'sym'), combine_replay(k, 'sym'), setup, F[:1],
                       '%d short-time points against a symbolic increasing 5-point long-time axis; values all reals' % k, AS, ST))
    for n in range(1, 6):
        us.append(Unit('interp_at_stored_height_%dcurves' % n, interp_fn(n), interp_replay(n), setup, F[2:3],
                       '%d stored heights (increasing, all reals in [20,400]), queried at each of them (index forked); B, radii, 3 curve values per height symbolic' % n, AS, ST))
    us.append(Unit('interp_cached_table', interp_cache_fn, None, setup, F[2:3], '3 stored heights; three successive queries on one object', AS, ST))
    us.append(Unit('radius_correction', radius_fn, radius_replay, setup, F[3:], 'three radii all reals in [0.02, 0.3]; 3 curve values', AS, ST))
    us.append(Unit('grab_g_function_glue', grab_fn, None, setup, F[1:2], 'one stored height; 3 long-time and 2 short-time points symbolic', AS, ST))
    combos = [('UHTR', 'equivalent', 'unequal', 8, False), ('UBWT', 'similarities', 'equal', 12, False), ('MIFT', 'equivalent', 'unequal', 8, False),
              ('MIFT', 'detailed', 'Unequal', 10, True)]
    if tier == 'thorough':
        combos = [(bc, so, sg, n, r) for bc in ('UHTR', 'UBWT', 'MIFT') for so in ('equivalent', 'similarities', 'detailed') for sg in ('equal', 'unequal') for (n, r) in ((8, False), (12, True))]
    for bc, so, sg, n, r in combos:
        us.append(Unit('long_time_family_%s_%s_%s_%d%s' % (bc, so, sg.lower(), n, '_ratios' if r else ''), family_fn(bc, so, sg, n, r), None, family_setup,
                       ['gfunction.py:calc_g_func_for_multiple_lengths', 'gfunction.py:calculate_g_function', 'gfunction.py:GFunction.__init__'],
                       'boundary %s, solver %s, %s segments (%d%s); two stored heights, radius, depth, flow, spacing, soil all symbolic reals; 3-borehole field' % (bc, so, sg, n, ', own ratios' if r else ''),
                       ['floats as reals'], ['pygfunction gFunction -> recorder returning fresh symbolic values; Network / Borehole / pipe model -> records of their arguments']))
    us.append(Unit('twin_reachability', combine_fn(2, 'sym', twin=True), None, setup, F[:1], 'assert False must be violated', expect_cex=True))
    return us
