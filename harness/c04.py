"""C04 - polygon-constrained fields lie inside the property and outside no-go zones."""
import random
from fractions import Fraction

import z3

from symx import *  # noqa: F403
from symx.runner import Unit, restore_shadows, shadow

from . import c16
from .search_common import conj

PROPERTY = 'C04'
EXPLANATION = ('(A) Pattern B: domains.polygonal_land_constraint (with bi_rectangle_nested, feature_recognition.remove_cutout, '
               'determine_largest_rectangle, shape.point_polygon_check, reorder_domain) runs with the property / no-go polygons concrete '
               'and the spacing bounds symbolic; on every region of the spacing space each kept borehole is classified by an exact '
               'rational oracle as inside-or-on-edge of a property polygon and strictly outside every no-go polygon, no grid borehole that '
               'is clearly inside the property and clearly outside the no-go zones is dropped, empty fields are removed and every list is '
               'ordered by non-decreasing count. (B) feature_recognition.remove_cutout runs on a fully symbolic point against each polygon '
               'set of the catalogue, for all four combinations of remove_inside / keep_contour, against the crossing-number oracle of C16.')
OUTSIDE = 'symbolic polygons (see C16); points within 2 x tolerance of a boundary for the "never dropped" clause.'
TOL = 0.01


def setup():
    import ghedesigner.domains as D
    from symx import engine
    engine.OPTIONS['div_mode'] = 'quot'
    shadow(D, 'ceil', sym_ceil)
    shadow(D, 'floor', sym_floor)
    shadow(D, 'range', sym_range)


_CLASS = {}


def classify(poly, p):
    """exact classification of a concrete point: (class, detour_min)"""
    key = (tuple(map(tuple, poly)), p)
    if key not in _CLASS:
        cls, margin = c16.exact_oracle(poly, p[0], p[1], TOL)
        _CLASS[key] = (cls, margin)
    return _CLASS[key]


def _det(x):
    if isinstance(x, Sym):
        v = E().determined_value(x.t)
        if v is None:
            raise Unsupported('coordinate not determined by the path condition')
        return float(v)
    return float(x)


def stage_checks(inp, out, boundaries, remove_inside, keep_contour):
    """one remove_cutout call on concrete points"""
    inp = [(_det(x), _det(y)) for x, y in inp]
    out = [(_det(x), _det(y)) for x, y in out]
    ok = True
    outset = set(out)
    if len(outset) != len(out) or not outset <= set(inp):
        return False
    for p in inp:
        cl = [classify(b, p) for b in boundaries]
        inside = any(c == 1 for c, _ in cl)
        on_edge = any(c == 0 for c, _ in cl)
        clear = all(m > 2 * TOL for _, m in cl)
        if remove_inside:
            must_drop = inside or (on_edge and not keep_contour)
        else:
            must_drop = not (inside or (on_edge and keep_contour))
        kept = p in outset
        if clear and kept == must_drop:
            ok = False
        if not clear and kept:
            # a kept point near a boundary must still be acceptable: not strictly inside a no-go / not strictly outside the property
            if remove_inside and inside and all(m > 1e-9 for _, m in cl):
                ok = False
    return ok


def body(v_real, assume, prop, nogo, rng, prior=None):
    import ghedesigner.domains as D
    import ghedesigner.feature_recognition as FR
    lo, hi_min, hi_max = rng
    bmin = v_real('b_min', lo, hi_min)
    bmx = v_real('b_max_x', lo, hi_max)
    bmy = v_real('b_max_y', lo, hi_max)
    assume((bmin <= bmx) & (bmin <= bmy))
    xs = [p[0] for pl in prop for p in pl]
    ys = [p[1] for pl in prop for p in pl]
    assume((bmx * 2 <= max(xs)) & (bmy * 2 <= max(ys)))
    if prior is not None:
        # history: another design with the same extent (hence float-identical grid points) but other polygons was built in this
        # process first - the result below may depend on the polygons handed to *this* call only
        try:
            D.polygonal_land_constraint(bmin, bmx, bmy, prior['prop'], prior['nogo'])
        except ValueError:
            pass
    calls = []
    real_rc = FR.remove_cutout

    def spy(coordinates, boundaries, remove_inside=True, keep_contour=True, on_edge_tolerance=0.01):
        out = real_rc(coordinates, boundaries, remove_inside=remove_inside, keep_contour=keep_contour, on_edge_tolerance=on_edge_tolerance)
        b = boundaries if not isinstance(boundaries[0][0], (int, float)) else [boundaries]
        calls.append((list(coordinates), list(out), [list(map(tuple, x)) for x in b], remove_inside, keep_contour, on_edge_tolerance))
        return out
    shadow(D, 'remove_cutout', spy)
    try:
        dom, desc = D.polygonal_land_constraint(bmin, bmx, bmy, prop, nogo)
    except ValueError:
        # a spacing window that admits no integer column count leaves a list empty and reorder_domain cannot unpack it:
        # the generator refuses with ValueError (no candidate field exists, nothing to check)
        return [True]
    finally:
        D.remove_cutout = real_rc
    cs = []
    # the candidate grids cover the bounding rectangle of ALL property outlines (independent extent, real grid generator)
    grids, _ = D.bi_rectangle_nested(max(xs), max(ys), bmin, bmx, bmy)
    expected_inputs = [[(_det(x), _det(y)) for x, y in f] for sub in grids for f in sub]
    first_stage = [[(_det(x), _det(y)) for x, y in c[0]] for c in calls if not c[3]]
    cs.append(first_stage == expected_inputs)
    for inp, out, b, ri, kc, tol in calls:
        cs.append(tol == TOL)
        cs.append(stage_checks(inp, out, b, ri, kc))
    finals = []
    for sub, dsc in zip(dom, desc):
        sub, dsc = list(sub), list(dsc)
        cs.append(len(sub) == len(dsc))
        cs.append(all(len(a) <= len(b) for a, b in zip(sub, sub[1:])))      # ordered by non-decreasing count
        cs.append(all(len(f) > 0 for f in sub))
        finals += sub
    # the final fields are exactly the non-empty results of the last stage applied to each grid (no other source of points)
    last_stage = [c for c in calls if c[3] == bool(nogo)] if nogo else [c for c in calls if not c[3]]
    produced = sorted(tuple(sorted((_det(x), _det(y)) for x, y in c[1])) for c in last_stage if len(c[1]) > 0)
    cs.append(sorted(tuple(sorted((_det(x), _det(y)) for x, y in f)) for f in finals) == produced)
    # directly on what is returned, against the polygons as the user gave them (independent of which filtering calls were made):
    # every borehole of every final field is inside / on the contour of a property outline and not inside / on any no-go zone
    given_prop = [list(map(tuple, pl)) for pl in prop]
    given_nogo = [list(map(tuple, pl)) for pl in nogo]
    for f in finals:
        cs.append(stage_checks(f, f, given_prop, False, True))
        if given_nogo:
            cs.append(stage_checks(f, f, given_nogo, True, False))
    # property stage keeps the contour, the no-go stage does not (documented defaults)
    cs += [c[4] is True for c in calls if not c[3]] + [c[4] is False for c in calls if c[3]]
    return cs


def make_fn(prop, nogo, rng, twin=False, prior=None):
    def fn(e):
        cs = body(lambda n, a, b: e.real(n, a, b), e.assume, prop, nogo, rng, prior)
        return False if twin else conj(cs)
    return fn


def make_replay(prop, nogo, rng, prior=None):
    def replay(model, notes):
        restore_shadows()
        try:
            cs = body(lambda n, a, b: float(model[n]), lambda c: None, prop, nogo, rng, prior)
        except Exception as ex:  # noqa: BLE001
            return True, dict(exception='%s: %s' % (type(ex).__name__, ex))
        finally:
            restore_shadows()
        bad = [k for k, c in enumerate(cs) if not bool(c)]
        return bool(bad), dict(failed_checks=bad[:8], n_checks=len(cs), spacings=model)
    return replay


# -- (B) remove_cutout on a symbolic point ---------------------------------------------------------------------------
def cutout_fn(polys, remove_inside, keep_contour):
    def fn(e):
        import ghedesigner.feature_recognition as FR
        import ghedesigner.shape as SH
        import math
        shadow(SH, 'sqrt', sym_sqrt)
        allx = [p[0] for pl in polys for p in pl]
        ally = [p[1] for pl in polys for p in pl]
        px = e.real('px', min(allx) - 1.5, max(allx) + 1.5)
        py = e.real('py', min(ally) - 1.5, max(ally) + 1.5)
        p = (px, py)
        classes = []
        for poly in polys:
            VF = [(float(x), float(y)) for x, y in poly]
            V = [(Fraction(x), Fraction(y)) for x, y in VF]
            n = len(V)
            dets = []
            for i in range(n):
                a, b, af, bf = V[i - 1], V[i], VF[i - 1], VF[i]
                d1 = sym_sqrt((af[0] - p[0]) ** 2 + (af[1] - p[1]) ** 2)
                d2 = sym_sqrt((bf[0] - p[0]) ** 2 + (bf[1] - p[1]) ** 2)
                lab = math.sqrt((af[0] - bf[0]) ** 2 + (af[1] - bf[1]) ** 2)
                det = d1 + d2 - lab
                onseg = z3.And(tobool(c16.cross(a, b, p) == 0), tobool((p[0] - a[0]) * (p[0] - b[0]) <= 0), tobool((p[1] - a[1]) * (p[1] - b[1]) <= 0))
                e.add(z3.Implies(onseg, z3.And(det.t <= 1e-12, det.t >= -1e-12)))
                e.add(z3.Implies(z3.Not(onseg), det.t > -1e-12))
                dets.append(det)
                cr = c16.cross(a, b, p)
                e.prefer.append(z3.Or(lift(cr) >= 0.05 * lab, lift(cr) <= -0.05 * lab))
            on_edge = z3.Or([tobool(abs(d) < TOL) for d in dets])
            cnt = z3.IntVal(0)
            for i in range(n):
                a, b = V[i], V[(i + 1) % n]
                up = z3.And(tobool(a[1] <= p[1]), tobool(p[1] < b[1]), tobool(c16.cross(a, b, p) > 0))
                dn = z3.And(tobool(b[1] <= p[1]), tobool(p[1] < a[1]), tobool(c16.cross(a, b, p) < 0))
                cnt = cnt + z3.If(z3.Or(up, dn), 1, 0)
            classes.append((z3.And(z3.Not(on_edge), cnt % 2 == 1), on_edge))
        bounds = [[tuple(map(float, q)) for q in pl] for pl in polys]
        arg = bounds if len(bounds) > 1 else bounds[0]           # a single polygon may be passed bare
        out = FR.remove_cutout([p], arg, remove_inside=remove_inside, keep_contour=keep_contour)
        kept = len(out) == 1
        inside = z3.Or([c[0] for c in classes])
        edge = z3.Or([c[1] for c in classes])
        if remove_inside:
            exp = z3.And(z3.Not(inside), z3.Not(z3.And(edge, z3.BoolVal(not keep_contour))))
        else:
            exp = z3.Or(inside, z3.And(edge, z3.BoolVal(keep_contour)))
        return SymBool(exp == z3.BoolVal(kept)) & SymBool(len(out) <= 1)
    return fn


def cutout_replay(polys, remove_inside, keep_contour):
    def replay(model, notes):
        restore_shadows()
        from ghedesigner.feature_recognition import remove_cutout
        p = (float(model['px']), float(model['py']))
        bounds = [[tuple(map(float, q)) for q in pl] for pl in polys]
        out = remove_cutout([p], bounds if len(bounds) > 1 else bounds[0], remove_inside=remove_inside, keep_contour=keep_contour)
        cl = [c16.exact_oracle(pl, p[0], p[1], TOL) for pl in polys]
        if any(m < 1e-11 for _, m in cl):
            return False, 'within 1e-11 of the tolerance band'
        inside, edge = any(c == 1 for c, _ in cl), any(c == 0 for c, _ in cl)
        exp = (not inside and not (edge and not keep_contour)) if remove_inside else (inside or (edge and keep_contour))
        return (len(out) == 1) != exp, dict(point=p, kept=len(out) == 1, expected=exp, classes=[c for c, _ in cl])
    return replay


CONFIGS = {
    'L_shape': dict(prop=[[(0.0, 0.0), (40.0, 0.0), (40.0, 20.0), (20.0, 20.0), (20.0, 40.0), (0.0, 40.0)]], nogo=[]),
    'rect_nogo': dict(prop=[[(0.0, 0.0), (48.0, 0.0), (48.0, 32.0), (0.0, 32.0)]], nogo=[[(16.0, 8.0), (32.0, 8.0), (32.0, 24.0), (16.0, 24.0)]]),
    'two_outlines_cw': dict(prop=[[(0.0, 0.0), (0.0, 30.0), (18.0, 30.0), (18.0, 0.0)], [(24.0, 5.0), (45.0, 5.0), (45.0, 36.0), (24.0, 36.0)]], nogo=[]),
    'two_outlines_small_last': dict(prop=[[(0.0, 0.0), (45.0, 0.0), (45.0, 36.0), (0.0, 36.0)], [(50.0, 2.0), (58.0, 2.0), (58.0, 12.0), (50.0, 12.0)]], nogo=[]),
    'rect_nogo_cw': dict(prop=[[(0.0, 0.0), (48.0, 0.0), (48.0, 32.0), (0.0, 32.0)]], nogo=[[(16.0, 24.0), (32.0, 24.0), (32.0, 8.0), (16.0, 8.0)]]),      # clockwise no-go zone
    # slanted edges, no no-go zone: the cut-out of finer grids is not monotone in the borehole count, the lists rely on the final re-ordering
    'kite_free': dict(prop=[[(0.0, 15.0), (30.0, 0.0), (50.0, 20.0), (20.0, 40.0)]], nogo=[]),
    # outlines and zones given as closed rings (first vertex repeated), the zone clockwise
    'closed_rings': dict(prop=[[(0.0, 0.0), (48.0, 0.0), (48.0, 32.0), (0.0, 32.0), (0.0, 0.0)]],
                         nogo=[[(16.0, 24.0), (32.0, 24.0), (32.0, 8.0), (16.0, 8.0), (16.0, 24.0)]]),
    # outline surveyed to the centimetre: grid rows at 50/3, 50/6, ... fall a few millimetres above the level of the side vertex
    # (50, 16.66) and below that of (0, 33.34): the half-open vertex rule has to be exact
    'surveyed_hexagon': dict(prop=[[(12.0, 0.0), (38.0, 0.0), (50.0, 16.66), (38.0, 50.0), (12.0, 50.0), (0.0, 33.34)]], nogo=[]),
    'convex_offset': dict(prop=[[(5.0, 3.0), (38.0, 0.0), (46.0, 22.0), (25.0, 41.0), (2.0, 30.0)]], nogo=[[(20.0, 12.0), (28.0, 12.0), (28.0, 20.0)]]),
    'U_two_nogo': dict(prop=[[(0.0, 0.0), (50.0, 0.0), (50.0, 40.0), (35.0, 40.0), (35.0, 15.0), (15.0, 15.0), (15.0, 40.0), (0.0, 40.0)]],
                       nogo=[[(3.0, 3.0), (9.0, 3.0), (9.0, 9.0), (3.0, 9.0)], [(40.0, 20.0), (47.0, 20.0), (47.0, 30.0), (40.0, 30.0)]]),
}


def units(tier, seed):
    F = ['domains.py:polygonal_land_constraint', 'domains.py:bi_rectangle_nested', 'domains.py:bi_rectangular', 'domains.py:reorder_domain',
         'feature_recognition.py:remove_cutout', 'feature_recognition.py:determine_largest_rectangle', 'shape.py:point_polygon_check']
    AS = ['polygons concrete; floats as reals for the spacing arithmetic; classification of concrete grid points natively in binary64',
          'lots admit three rows at the maximum spacing']
    us = []
    names = list(CONFIGS) if tier == 'thorough' else ['L_shape', 'rect_nogo', 'rect_nogo_cw', 'two_outlines_cw', 'two_outlines_small_last', 'kite_free', 'closed_rings', 'surveyed_hexagon', 'convex_offset']
    rng = (5.0, 10.0, 20.0) if tier == 'quick' else (3.0, 12.0, 25.0)
    for nm in names:
        c = CONFIGS[nm]
        us.append(Unit('pipeline_' + nm, make_fn(c['prop'], c['nogo'], rng), make_replay(c['prop'], c['nogo'], rng), setup, F,
                       'configuration %s (%d outline(s), %d no-go zone(s)) concrete; b_min in [%g,%g], b_max_x, b_max_y in [b_min,%g], all reals'
                       % (nm, len(c['prop']), len(c['nogo']), rng[0], rng[1], rng[2]), AS, max_seconds=1500, timeout_ms=60000))
    PRIORS = {'rect_nogo': dict(prop=[[(0.0, 0.0), (48.0, 0.0), (48.0, 32.0), (0.0, 32.0)]], nogo=[[(2.0, 2.0), (14.0, 2.0), (14.0, 30.0), (2.0, 30.0)]]),
              'L_shape': dict(prop=[[(0.0, 0.0), (40.0, 0.0), (40.0, 40.0), (0.0, 40.0)]], nogo=[]),
              'rect_nogo_cw': dict(prop=[[(0.0, 0.0), (48.0, 0.0), (48.0, 32.0), (0.0, 32.0)]], nogo=[]),       # the earlier design had no no-go zone at all
              'kite_free': dict(prop=[[(0.0, 0.0), (50.0, 0.0), (50.0, 40.0), (0.0, 40.0)]], nogo=[[(10.0, 10.0), (30.0, 10.0), (30.0, 30.0), (10.0, 30.0)]])}
    for nm in (list(PRIORS) if tier == 'thorough' else ['rect_nogo', 'L_shape', 'rect_nogo_cw']):
        c, pr = CONFIGS[nm], PRIORS[nm]
        us.append(Unit('after_other_design_' + nm, make_fn(c['prop'], c['nogo'], rng, prior=pr), make_replay(c['prop'], c['nogo'], rng, prior=pr), setup, F,
                       'configuration %s built after another design of the same extent (same grid points) with other polygons in the same process; spacings as above' % nm,
                       AS, max_seconds=1500, timeout_ms=60000))
    sets = {'L': CONFIGS['L_shape']['prop'], 'two_cw': CONFIGS['two_outlines_cw']['prop'], 'nogo_pair': CONFIGS['U_two_nogo']['nogo'],
            'tri_real': [[(20.5, 12.25), (28.75, 12.0), (27.5, 20.125)]]}
    for nm, polys in sets.items():
        for ri in (False, True):
            for kc in (True, False):
                us.append(Unit('cutout_%s_remove%d_contour%d' % (nm, ri, kc), cutout_fn(polys, ri, kc), cutout_replay(polys, ri, kc), c16.setup, F[4:],
                               'polygon set %s concrete (%d polygon(s)); test point all reals in the box +-1.5; remove_inside=%s keep_contour=%s; tolerance 0.01'
                               % (nm, len(polys), ri, kc), ['floats as reals; detour rounding within 1e-12 of the tolerance outside the claim'],
                               ['math.sqrt -> abstract distance + per-edge detour lemma (as C16)'], max_seconds=600))
    us.append(Unit('twin_reachability', make_fn(CONFIGS['L_shape']['prop'], [], rng, twin=True), None, setup, F, 'assert False must be violated', expect_cex=True))
    return us
