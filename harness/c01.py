"""C01 - the returned design keeps the entering fluid temperature within the limits."""
from . import search_props as SP

PROPERTY = 'C01'
EXPLANATION = ('The real search classes, GHEManager.find_design, GHE.size and solve_root run on free symbolic (maxEFT, minEFT) per '
               '(candidate, height); asserted: unless an "unmet" escape message was emitted, the excess at the final (field, height) '
               'left in the GHE object is <= 1e-3 K (for a brentq root: |f(x_last)| + Lipschitz*|x_ret-x_last|).')
OUTSIDE = ('that the numerically computed EFT is the physically right one (C09/C10/C11 cover the pieces); loads, soils, pipes and fluids '
           'enter only through the abstract temperatures; candidate lists longer than the stated bounds.')
KEYS = ['c01']


def units(tier, seed):
    return SP.all_units(PROPERTY, KEYS, tier) + SP.rowwise_units(KEYS, tier) + SP.limits_units(tier)
