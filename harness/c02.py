"""C02 - height bounds, borehole cap, unmet-design policy, exception types."""
from . import search_props as SP

PROPERTY = 'C02'
EXPLANATION = ('Same runs as C01 with the assertions: min_height <= final height <= max_height; selected count <= max_boreholes; '
               '"Search failed." only when the user did not ask to continue and the largest allowed candidate fails at maximum height or '
               'the smallest over-satisfies; continue => largest allowed @ max height / smallest @ min height; any exception other than '
               'ValueError escaping the search or the sizing is a violation.')
OUTSIDE = 'generator refusals on lots narrower than three rows; candidate lists longer than the stated bounds.'
KEYS = ['c02_height', 'c02_cap', 'policy', 'c02_exception_type']


def units(tier, seed):
    return SP.all_units(PROPERTY, KEYS, tier) + SP.rowwise_units(KEYS, tier) + SP.limits_units(tier)
