"""C13 - results are deterministic and independent of call history (pattern D: self-composition)."""
import itertools
import random
from types import SimpleNamespace as NS

import z3

from symx import *  # noqa: F403
from symx.runner import Unit, restore_shadows, shadow

from . import c09, search_common as SC, search_props as SP
from .search_common import conj

PROPERTY = 'C13'
EXPLANATION = ('Two histories ending in the same configuration are executed in one symbolic run and the solver must prove their results '
               'equal, with the numeric kernels uninterpreted functions of the arguments they actually receive (so any dependence on '
               'hidden state - the shared borehole height, a stale time axis, a cached interpolation table built with other settings, a '
               'mutated default argument - shows up as an argument or outcome that can differ). Units: (1) all sequences of up to two '
               'earlier operations {simulate HYBRID, simulate HOURLY, size} at other symbolic heights on one GHE object, followed by a '
               'simulation at height H, against a fresh object; (2) GFunction.g_function_interpolation after an earlier query at another '
               'height (in or out of range) against a fresh table; (3) the search + sizing repeated on the same manager, run after an '
               'unrelated search, and started from another nominal borehole height (pattern A temperatures); (4) permutations of the '
               'independent GHEManager setters; (5) mutable default arguments of the polygon-constrained design; (6) the equivalent '
               'single U-tube conversion applied twice.')
OUTSIDE = ('bit-identity of float results beyond "same kernel, same arguments" (e.g. summation order inside numpy/pygfunction); process-level '
           'state of pygfunction itself.')

SIM = z3.Function('SIM', z3.RealSort(), z3.IntSort(), z3.IntSort(), z3.RealSort(), z3.RealSort(), z3.RealSort(), z3.RealSort())
GARG = z3.Function('GARG', z3.RealSort(), z3.RealSort())


# -- (1) histories on one GHE object -----------------------------------------------------------------------------
STS = z3.Function('STS', z3.RealSort(), z3.RealSort())      # short-time response as a function of the height it was built for
TS = z3.Function('TS', z3.RealSort(), z3.RealSort())        # characteristic time t_s(H)
GARG2 = z3.Function('GARG2', z3.RealSort(), z3.RealSort(), z3.RealSort())
SIM7 = z3.Function('SIM7', z3.RealSort(), z3.IntSort(), z3.IntSort(), z3.RealSort(), z3.RealSort(), z3.RealSort(), z3.RealSort(), z3.RealSort())


def _r(x):
    return toreal(lift(x))


def mk_ghe(e, tag, end_month=24, loads=None):
    """a GHE built by the real GHE.__init__ (so every attribute the class sets exists); the pipe model, the radial model and
    the hybrid loads are recorders whose outputs are uninterpreted functions of the borehole height they were given"""
    import ghedesigner.ground_heat_exchangers as G
    from ghedesigner.enums import BHPipeType
    borehole = NS(H=100.0, r_b=0.075, D=2.0)

    class EqTube:
        def __init__(self, h):
            self.b = NS(H=h, r_b=0.075)          # the equivalent tube carries a copy of the height at conversion time

    class Bhe:
        def __init__(self):
            self.b = borehole
            self.soil = NS(k=2.0, ugt=18.0)
            self.fluid = NS(cp=4000.0, rho=998.0)
            self.m_flow_borehole = 0.3
            self.pipe, self.grout = NS(), NS()

        def to_single(self):
            return EqTube(self.b.H)

        def calc_effective_borehole_resistance(self):
            return 0.1

    class Radial:
        def __init__(self, eq):
            self.sts = Sym(STS(_r(eq.b.H)))
            self.t_s = Sym(TS(_r(eq.b.H)))

        def calc_sts_g_functions(self, eq):
            self.sts = Sym(STS(_r(eq.b.H)))
            self.t_s = Sym(TS(_r(eq.b.H)))

    shadow(G, 'get_bhe_object', lambda *a, **k: Bhe())
    shadow(G, 'RadialNumericalBH', Radial)
    shadow(G, 'HybridLoad', lambda *a, **k: NS(load=c09.VArr([0, 0, 1.5, -2.0, 0.5]), hour=c09.VArr([0, 0, 700.0, 1400.0, 17520.0])))
    sp = NS(start_month=1, end_month=end_month, max_EFT_allowable=35.0, min_EFT_allowable=5.0, max_height=135.0, min_height=60.0)
    ghe = G.GHE(1.2, 5.0, BHPipeType.SINGLEUTUBE, NS(rho=998.0, cp=4000.0), borehole, NS(), NS(), NS(k=2.0, rhoCp=2.3e6, ugt=18.0),
                NS(bore_locations=[(0, 0), (5, 0), (0, 5), (5, 5)]), sp, [0.0] * 8760 if loads is None else loads)

    def grab(b_over_h):
        return Sym(GARG2(_r(b_over_h), _r(ghe.radial_numerical.sts))), None
    ghe.grab_g_function = grab

    def detailed(q_dot, time_values, g):
        nq, nt = len(q_dot), len(time_values)
        t0 = time_values[0] if nt else 0
        t1 = time_values[nt - 1] if nt else 0
        v = Sym(SIM7(_r(ghe.bhe.b.H), z3.IntVal(nq), z3.IntVal(nt), _r(t0), _r(t1), _r(g), _r(ghe.radial_numerical.t_s)))
        return [v, v - 1], [0.0, 0.0]
    ghe._simulate_detailed = detailed
    return ghe


def do_op(e, ghe, op, h):
    from ghedesigner.enums import TimestepType
    if op == 'hybrid':
        ghe.bhe.b.H = h
        return ghe.simulate(TimestepType.HYBRID)
    if op == 'hourly':
        ghe.bhe.b.H = h
        return ghe.simulate(TimestepType.HOURLY)
    if op == 'size':
        ghe.size(TimestepType.HYBRID)
        return None
    raise ValueError(op)


def shared_loads_fn(first_months, second_months, op):
    """two exchangers built from the caller's one hourly-loads list (as the manager and the searches do); the second one must behave
    as if it had been built from a fresh copy of the list"""
    def fn(e):
        H = e.real('H', 20, 400)
        h0 = e.real('h0', 20, 400)
        loads = [0.0] * 8760
        a = mk_ghe(e, 'a', end_month=first_months, loads=loads)
        try:
            do_op(e, a, op, h0)
        except Exception:  # noqa: BLE001
            pass
        b = mk_ghe(e, 'b', end_month=second_months, loads=loads)
        rb = do_op(e, b, op, H)
        c = mk_ghe(e, 'c', end_month=second_months)
        rc = do_op(e, c, op, H)
        return conj([rb[0] == rc[0], rb[1] == rc[1], len(b.times) == len(c.times), len(loads) == 8760, all(x == 0.0 for x in loads[:3])])
    return fn


def ghe_history_fn(prefix_ops, final_op, end_month=24):
    def fn(e):
        H = e.real('H', 20, 400)
        hs = [e.real('h%d' % i, 20, 400) for i in range(len(prefix_ops))]
        a = mk_ghe(e, 'a', end_month=end_month)
        for op, h in zip(prefix_ops, hs):
            try:
                do_op(e, a, op, h)
            except Exception:  # noqa: BLE001 - an earlier operation may fail (e.g. zero excess in solve_root); the object is used afterwards all the same
                pass
        ra = do_op(e, a, final_op, H)
        b = mk_ghe(e, 'b', end_month=end_month)
        rb = do_op(e, b, final_op, H)
        return conj([ra[0] == rb[0], ra[1] == rb[1], len(a.times) == len(b.times), len(a.hp_eft) == len(b.hp_eft)])
    return fn


def ghe_history_replay(prefix_ops, final_op):
    def replay(model, notes):
        """native: a real GHE (pygfunction g-functions for three heights, real radial model, real hybrid loads) put through the
        same history, against a fresh one; heights of the model mapped affinely from [20,400] into the stored range [60,135]"""
        restore_shadows()
        import math
        import warnings
        warnings.simplefilter('ignore')
        from ghedesigner.borehole import GHEBorehole
        from ghedesigner.enums import BHPipeType, TimestepType
        from ghedesigner.gfunction import calc_g_func_for_multiple_lengths
        from ghedesigner.ground_heat_exchangers import GHE
        from ghedesigner.media import GHEFluid, Grout, Pipe, Soil
        from ghedesigner.simulation import SimulationParameters
        from ghedesigner.utilities import eskilson_log_times

        def mp(h):
            return 60.0 + (float(h) - 20.0) / 380.0 * 75.0

        def mk():
            pipe = Pipe(Pipe.place_pipes(0.0323, 0.0133, 1), 0.0108, 0.0133, 0.0323, 1e-6, 0.4, 1542000.0)
            bh = GHEBorehole(100.0, 2.0, 0.075, 0.0, 0.0)
            fluid, grout, soil = GHEFluid('Water', 0.0), Grout(1.0, 3901000.0), Soil(2.0, 2343493.0, 18.3)
            coords = [(0.0, 0.0), (5.0, 0.0)]
            gf = calc_g_func_for_multiple_lengths(5.0, [60.0, 97.5, 135.0], 0.075, 2.0, 0.2, BHPipeType.SINGLEUTUBE, eskilson_log_times(), coords, fluid, pipe, grout, soil)
            sp = SimulationParameters(1, 12, 35, 5, 135, 60)
            loads = [3000.0 * math.sin(h / 8760 * 2 * math.pi) + (4000.0 if h % 500 == 7 else 0) for h in range(8760)]
            return GHE(0.4, 5.0, BHPipeType.SINGLEUTUBE, fluid, bh, pipe, grout, soil, gf, sp, loads)

        def op(g, name, h):
            if name == 'size':
                g.size(TimestepType.HYBRID)
                return None
            g.bhe.b.H = h
            return g.simulate(TimestepType.HYBRID if name == 'hybrid' else TimestepType.HOURLY)
        a = mk()
        for i, name in enumerate(prefix_ops):
            try:
                op(a, name, mp(model.get('h%d' % i, 100.0)))
            except Exception:  # noqa: BLE001
                pass
        H = mp(model['H'])
        try:
            ra = op(a, final_op, H)
        except Exception as ex:  # noqa: BLE001
            ra = ('exception', type(ex).__name__)
        try:
            rb = op(mk(), final_op, H)
        except Exception as ex:  # noqa: BLE001
            rb = ('exception', type(ex).__name__)
        return ra != rb, dict(history=list(prefix_ops), final=final_op, H=H, after_history=[str(x) for x in ra], fresh=[str(x) for x in rb])
    return replay


def ghe_setup():
    c09.setup()
    import ghedesigner.utilities as U
    shadow(U, 'int', sym_int)

    def brentq_stub(f, lo, hi, xtol=2e-12, rtol=8.9e-16, maxiter=100, **kw):
        e = Engine.cur
        x = Sym(e.fresh('root'))
        e.assume((x >= lo) & (x <= hi))
        f(x)
        return x
    shadow(U, 'brentq', brentq_stub)


# -- (2) interpolation cache -----------------------------------------------------------------------------------------
ITP = {}


class KeyedInterp:
    """interp1d contract keyed by its construction arguments (kind, nodes), not by identity: two tables built from the same
    nodes with the same kind agree everywhere; out of the node range without 'extrapolate' -> ValueError"""

    def __init__(self, x, y, kind='linear', fill_value=None, **kw):
        self.x, self.y, self.kind, self.fill_value = list(x), list(y), kind, fill_value
        n = len(self.x)
        key = (kind, n)
        if key not in ITP:
            ITP[key] = z3.Function('ITP_%s_%d' % (kind, n), *([z3.RealSort()] * (2 * n + 2)))
        self.f = ITP[key]

    def __call__(self, h):
        lo, hi = sym_min(self.x), sym_max(self.x)
        if not bool((h >= lo) & (h <= hi)) and self.fill_value != 'extrapolate':
            raise ValueError('A value in x_new is outside the interpolation range.')
        args = [toreal(lift(h))] + [toreal(lift(v)) for v in self.x] + [toreal(lift(v)) for v in self.y]
        val = Sym(self.f(*args))
        return NS(tolist=lambda: val)


def cache_setup():
    import ghedesigner.gfunction as GFM
    shadow(GFM, 'interp1d', KeyedInterp)
    shadow(GFM, 'max', sym_max)
    shadow(GFM, 'min', sym_min)
    shadow(GFM, 'float', sym_float)
    shadow(GFM, 'warnings', NS(warn=lambda *a, **k: None))


def cache_fn(n_curves):
    def fn(e):
        from ghedesigner.gfunction import GFunction
        hs = [e.real('H%d' % i, 20, 400) for i in range(n_curves)]
        for a, b in zip(hs, hs[1:]):
            e.assume(b - a >= 1)
        B = e.real('B', 1, 30)
        curves = {h: [e.real('g%d' % i)] for i, h in enumerate(hs)}
        rbs = {h: 0.075 for h in hs}
        ha, hb = e.real('ha', 10, 500), e.real('hb', 10, 500)

        def query(gf, h):
            try:
                g, rb, d, heq = gf.g_function_interpolation(B / h)
                return ('ok', g[0])
            except ValueError:
                return ('ValueError', None)
        # queries within 2 mm of the extreme stored heights are outside the claim (snapping tolerances 1e-6 / 1e-3 decided in binary64)
        for q in (ha, hb):
            for h in (hs[0], hs[-1]):
                e.assume((q - h >= 0.002) | (h - q >= 0.002))
        # counterexamples are preferred away from the snapping / range tolerances of the interpolation (robust in binary64)
        for q in (ha, hb):
            for h in hs:
                e.prefer.append(z3.Or(q.t - h.t >= 0.5, h.t - q.t >= 0.5))
        gf1 = GFunction(B, 2.0, dict(rbs), {k: list(v) for k, v in curves.items()}, [-8.5], [(0.0, 0.0)])
        query(gf1, ha)
        r1 = query(gf1, hb)
        gf2 = GFunction(B, 2.0, dict(rbs), {k: list(v) for k, v in curves.items()}, [-8.5], [(0.0, 0.0)])
        r2 = query(gf2, hb)
        e.notes['outcomes'] = (r1[0], r2[0])
        if r1[0] != r2[0]:
            return False
        return True if r1[0] != 'ok' else (r1[1] == r2[1])
    return fn


def cache_replay(n_curves):
    def replay(model, notes):
        restore_shadows()
        import warnings
        from ghedesigner.gfunction import GFunction
        hs = [float(model['H%d' % i]) for i in range(n_curves)]
        B = float(model['B'])
        curves = {h: [float(model['g%d' % i])] for i, h in enumerate(hs)}
        rbs = {h: 0.075 for h in hs}
        ha, hb = float(model['ha']), float(model['hb'])

        def query(gf, h):
            try:
                with warnings.catch_warnings():
                    warnings.simplefilter('ignore')
                    g, rb, d, heq = gf.g_function_interpolation(B / h)
                return ('ok', float(g[0]))
            except ValueError as ex:
                return ('ValueError', str(ex)[:60])
        gf1 = GFunction(B, 2.0, dict(rbs), {k: list(v) for k, v in curves.items()}, [-8.5], [(0.0, 0.0)])
        query(gf1, ha)
        r1 = query(gf1, hb)
        gf2 = GFunction(B, 2.0, dict(rbs), {k: list(v) for k, v in curves.items()}, [-8.5], [(0.0, 0.0)])
        r2 = query(gf2, hb)
        bad = r1[0] != r2[0] or (r1[0] == 'ok' and abs(r1[1] - r2[1]) > 1e-9 * (1 + abs(r2[1])))
        return bad, dict(stored_heights=hs, first_query=ha, second_query=hb, after_history=r1, fresh=r2)
    return replay


# -- (3) search histories (pattern A) ---------------------------------------------------------------------------------
def search_history_fn(kind, p, variant):
    cfg = dict(kind=kind, p=p, cap=None, cont=True)

    def run(ctx, h0):
        import ghedesigner.manager as M
        import ghedesigner.search_routines as SR
        from ghedesigner.enums import FlowConfigType, TimestepType
        parts = SC.light_parts(h0=h0)
        sp = SC.sim_params(ctx, None, True)
        dom, desc = SP.domain(kind, p)
        common = dict(v_flow=0.3, sim_params=sp, hourly_extraction_ground_loads=[0.0] * 8760, method=TimestepType.HYBRID,
                      flow_type=FlowConfigType.BOREHOLE, **parts)
        cls = SR.Bisection1D if kind in ('ns', 'rect') else SR.Bisection2D if kind == '2d' else SR.BisectionZD
        mgr = M.GHEManager()
        for a in ('_fluid', '_grout', '_soil', '_pipe', '_borehole', '_simulation_parameters', '_ground_loads', '_geometric_constraints'):
            setattr(mgr, a, [1])
        mgr._design = NS(find_design=lambda: cls(dom, desc, **common))
        return mgr

    def result(ctx, mgr):
        i, h, hk = SC.final_state(ctx, mgr._search)
        return i, h

    def fn(e):
        ctx = SC.SearchCtx(e=e)
        dom0, _ = SP.domain(kind, p)
        for f in (dom0 if kind in ('ns', 'rect') else [f for sub in dom0 for f in sub]):
            ctx.field_idx(f)
        try:
            m1 = run(ctx, 100.0)
            m1.find_design()
            r1 = result(ctx, m1)
            if variant == 'repeat':
                m1.find_design()
                r2 = result(ctx, m1)
            elif variant == 'nominal_height':
                m2 = run(ctx, 37.5)       # another nominal borehole height given to the borehole setter
                m2.find_design()
                r2 = result(ctx, m2)
            elif variant == 'same_manager_reconfigured':
                # one manager: an unrelated design first, then set_design() for the design under test (a new design object, as the real
                # setter creates), find_design() again - against the fresh manager m1
                m2 = run(ctx, 100.0)
                wanted = m2._design
                m2._design = NS(find_design=lambda: __import__('ghedesigner.search_routines', fromlist=['x']).Bisection1D(
                    *SP.domain('ns', dict(n=2)), v_flow=0.3, sim_params=SC.sim_params(ctx, None, True), hourly_extraction_ground_loads=[0.0] * 8760,
                    method=__import__('ghedesigner.enums', fromlist=['x']).TimestepType.HYBRID,
                    flow_type=__import__('ghedesigner.enums', fromlist=['x']).FlowConfigType.BOREHOLE, **SC.light_parts(h0=55.0)))
                m2.find_design()
                m2._design = wanted
                m2.find_design()
                r2 = result(ctx, m2)
            elif variant == 'after_unrelated':
                other = run(ctx, 77.0)
                other._design = NS(find_design=lambda: __import__('ghedesigner.search_routines', fromlist=['x']).Bisection1D(
                    *SP.domain('ns', dict(n=2)), v_flow=0.3, sim_params=SC.sim_params(ctx, None, True), hourly_extraction_ground_loads=[0.0] * 8760,
                    method=__import__('ghedesigner.enums', fromlist=['x']).TimestepType.HYBRID,
                    flow_type=__import__('ghedesigner.enums', fromlist=['x']).FlowConfigType.BOREHOLE, **SC.light_parts(h0=55.0)))
                other.find_design()
                m2 = run(ctx, 100.0)
                m2.find_design()
                r2 = result(ctx, m2)
        except ValueError:
            return True
        return conj([r1[0] == r2[0], r1[1] == r2[1]])
    return fn


# -- (4) setter permutations ----------------------------------------------------------------------------------------------
def setters_fn(perms):
    def fn(e):
        import ghedesigner.manager as M
        vals = dict(kg=e.real('kg', 0.3, 3), ks=e.real('ks', 0.5, 5), ugt=e.real('ugt', 0, 30), H=e.real('H', 20, 400), D=e.real('D', 0.5, 5),
                    maxh=e.real('maxh', 100, 400), minh=e.real('minh', 20, 99), L=e.real('L', 20, 200), b=e.real('b', 3, 10))
        loads = [e.real('q0'), e.real('q1')] + [0.0] * 10

        def calls(m):
            return {
                'grout': lambda: m.set_grout(conductivity=vals['kg'], rho_cp=3.9e6),
                'soil': lambda: m.set_soil(conductivity=vals['ks'], rho_cp=2.3e6, undisturbed_temp=vals['ugt']),
                'pipe': lambda: m.set_single_u_tube_pipe(inner_diameter=0.034, outer_diameter=0.042, shank_spacing=0.018, roughness=1e-6, conductivity=0.4, rho_cp=1.5e6),
                'borehole': lambda: m.set_borehole(height=vals['H'], buried_depth=vals['D'], diameter=0.14),
                'sim': lambda: m.set_simulation_parameters(num_months=240, max_eft=35, min_eft=5, max_height=vals['maxh'], min_height=vals['minh']),
                'loads': lambda: m.set_ground_loads_from_hourly_list(loads),
                'geom': lambda: m.set_geometry_constraints_near_square(b=vals['b'], length=vals['L']),
            }

        def state(m):
            return (m._grout.k, m._soil.k, m._soil.ugt, m._borehole.H, m._borehole.D, m._borehole.r_b, m._simulation_parameters.max_height,
                    m._simulation_parameters.min_height, m._geometric_constraints.b, m._geometric_constraints.length, m._pipe.r_in, m._pipe.s,
                    m._ground_loads[0], m._ground_loads[1], m.pipe_type, m._geometric_constraints.type)
        ref = None
        cs = []
        for perm in perms:
            m = M.GHEManager()
            c = calls(m)
            for name in perm:
                c[name]()
            st = state(m)
            if ref is None:
                ref = st
            else:
                cs += [(a == b) if isinstance(a, Sym) or isinstance(b, Sym) else a == b for a, b in zip(ref, st)]
        return conj(cs)
    return fn


def setters_setup():
    import ghedesigner.manager as M

    class FakeBorehole:
        def __init__(self, height, buried_depth, radius, x, y):
            self.H, self.D, self.r_b, self.x, self.y = height, buried_depth, radius, x, y
    shadow(M, 'GHEBorehole', FakeBorehole)


# -- (5) mutable defaults ------------------------------------------------------------------------------------------------------
def defaults_fn(e):
    import inspect

    import ghedesigner.design as DS
    import ghedesigner.domains as D
    bmin = e.real('b_min', 5, 8)
    prop = [[(0.0, 0.0), (30.0, 0.0), (30.0, 20.0), (0.0, 20.0)]]
    nogo = [[(10.0, 5.0), (20.0, 5.0), (20.0, 15.0), (10.0, 15.0)]]
    dflt = inspect.signature(D.polygonal_land_constraint).parameters['keep_contour'].default
    dflt2 = inspect.signature(DS.DesignBiRectangleConstrained.__init__).parameters['keep_contour'].default
    # the zone's outline passes through grid points for b = 5 (x = 10, 20; y = 5, 15): whether the contour is kept shows in the result
    d1 = D.polygonal_land_constraint(bmin, 10.0, 10.0, prop, nogo)
    d1b = D.polygonal_land_constraint(bmin, 10.0, 10.0, prop, nogo, keep_contour=dflt2)         # as DesignBiRectangleConstrained passes it
    # other designs in between: no no-go zone at all (None, and an empty list), another lot, through both default lists
    other = [[(0.0, 0.0), (40.0, 0.0), (40.0, 25.0), (0.0, 25.0)]]
    for pb, ng in ((prop, None), (prop, []), (other, None), (other, [[(5.0, 5.0), (15.0, 5.0), (15.0, 15.0)]])):
        D.polygonal_land_constraint(bmin, 10.0, 10.0, pb, ng)
        D.polygonal_land_constraint(bmin, 10.0, 10.0, pb, ng, keep_contour=dflt2)
    d2 = D.polygonal_land_constraint(bmin, 10.0, 10.0, prop, nogo)
    d2b = D.polygonal_land_constraint(bmin, 10.0, 10.0, prop, nogo, keep_contour=dflt2)

    def fields(d):
        return [[list(f) for f in sub] for sub in d[0]]
    same = fields(d1) == fields(d2) and fields(d1b) == fields(d2b) and fields(d1) == fields(d1b)
    return same and dflt == [True, False] and dflt2 == [True, False]


def defaults_setup():
    import ghedesigner.domains as D
    from symx import engine
    engine.OPTIONS['div_mode'] = 'quot'
    shadow(D, 'ceil', sym_ceil)
    shadow(D, 'floor', sym_floor)
    shadow(D, 'range', sym_range)


# -- (6) equivalent single U-tube applied twice ------------------------------------------------------------------------------
def equivalent_twice_fn(e):
    from . import c15
    import ghedesigner.borehole_heat_exchangers as B
    r_in, r_out, r_b = e.real('r_in', 0.005, 0.03), e.real('r_out', 0.006, 0.04), e.real('r_b', 0.04, 0.15)
    e.assume(r_out > r_in)
    e.add(z3.Implies(r_out.t > r_in.t, LN(r_out.t) > LN(r_in.t)))
    grout = NS(k=1.0, rhoCp=3.9e6)
    tok = NS(nPipes=2, r_in=r_in, r_out=r_out, h_f=1500.0, pipe=NS(k=0.4, roughness=1e-6, rhoCp=1.5e6), b=NS(r_b=r_b, H=100.0, D=2.0),
             m_flow_borehole=0.3, fluid=NS(), grout=grout, soil=NS())
    out = []
    for _ in range(2):
        vf, vp, rc, rp = B.MultipleUTube.u_tube_volumes(tok)
        s = B.GHEDesignerBoreholeWithMultiplePipes.equivalent_single_u_tube(tok, vf, vp, rc, rp)
        s.grout.k = 7.0            # what match_effective_borehole_resistance does to the equivalent tube's grout
        out.append(s)
    a, b = out
    return conj([a.pipe.r_in == b.pipe.r_in, a.pipe.r_out == b.pipe.r_out, a.b.r_b == b.b.r_b, a.pipe.s == b.pipe.s,
                 tok.b.r_b is r_b, tok.grout is grout, grout.k == 1.0, a.grout is not b.grout])


# -- (7) long-time g-function computation: no state may survive between two computations -------------------------------------
GFV = z3.Function('GFV', *([z3.RealSort()] * 15), z3.RealSort())
# field -> (lo, hi, value used when the field is concrete in a variant); only quantities the real g-function depends on
GF_FIELDS = {'k_g': (0.5, 3.0, 1.0), 'k_s': (1.0, 4.0, 2.0), 'rhocp_s': (1.5e6, 3.0e6, 2343493.0), 'k_p': (0.2, 1.0, 0.4), 'cp_f': (3000.0, 4500.0, 4182.0),
             'mu_f': (5.0e-4, 5.0e-3, 1.0e-3), 'm_flow': (0.1, 1.0, 0.3), 'r_b': (0.06, 0.1, 0.075), 'depth': (1.0, 5.0, 2.0)}
GF_VARIANTS = {'all': set(GF_FIELDS), 'media': {'k_g', 'k_p', 'cp_f', 'mu_f'}, 'soil_k': {'k_s', 'k_g'}, 'flow_geometry': {'m_flow', 'r_b', 'depth'}}


def gfcalc_setup():
    import ghedesigner.gfunction as GFM
    import pygfunction as gt

    def bhe_token(bhe_type, m_flow, fluid, bh, pipe, grout, soil):
        return NS(kind=bhe_type, m_flow=m_flow, fluid=fluid, b=bh, pipe=pipe, grout=grout, soil=soil)

    def network(bore_field, bhes, m_flow_network=None, cp_f=None):
        return NS(field=bore_field, bhes=bhes, m_flow_network=m_flow_network, cp_f=cp_f)

    class GFun:
        """pygfunction.gfunction.gFunction by contract: a function of everything it is handed (the field, the pipe models built for
        this call and what they reference *at the time of the call*, diffusivity, times, boundary condition, options)"""

        def __init__(self, net, alpha, time=None, boundary_condition=None, options=None, method=None):
            bh0, bhe0 = net.field[0], net.bhes[0]
            geo = sum((i + 1) * (13.0 * b.x + 7.0 * b.y) for i, b in enumerate(net.field)) + 1000.0 * len(net.field)   # concrete fingerprint of the layout
            args = [bh0.H, bh0.D, bh0.r_b, alpha, net.m_flow_network, net.cp_f, bhe0.grout.k, bhe0.soil.k, bhe0.pipe.k, bhe0.fluid.mu,
                    bhe0.m_flow, geo, float(options['nSegments']), float(len(str(boundary_condition)) + 10 * len(str(method)))]
            self.gFunc = NS(tolist=lambda: [Sym(GFV(*[_r(a) for a in args], _r(t))) for t in list(time)])

    def borehole(H, D, r_b, x, y, tilt=0.0, orientation=0.0):      # pygfunction's Borehole is a plain record (it only coerces to float)
        return NS(H=H, D=D, r_b=r_b, x=x, y=y, tilt=tilt, orientation=orientation)
    shadow(GFM, 'GHEBorehole', borehole)
    shadow(GFM, 'get_bhe_object', bhe_token)
    shadow(GFM, 'gt', NS(networks=NS(Network=network), gfunction=NS(gFunction=GFun), utilities=gt.utilities))


def _gf_values(get, tag, symbolic):
    return {f: (get('%s_%s' % (f, tag), lo, hi) if f in symbolic else dflt) for f, (lo, hi, dflt) in GF_FIELDS.items()}


def _gf_objects(v):
    from ghedesigner.media import Grout, Pipe, Soil
    fluid = NS(cp=v['cp_f'], mu=v['mu_f'], rho=998.0, k=0.6)
    pipe = Pipe(Pipe.place_pipes(0.0323, 0.0133, 1), 0.0108, 0.0133, 0.0323, 1e-6, v['k_p'], 1542000.0)
    return dict(fluid=fluid, pipe=pipe, grout=Grout(v['k_g'], 3901000.0), soil=Soil(v['k_s'], v['rhocp_s'], 18.3))


GF_COORDS = [(0.0, 0.0), (5.0, 0.0), (0.0, 5.0)]
GF_HEIGHTS = [60.0, 100.0]


def gfcalc_fn(n_prior, variant):
    symbolic = GF_VARIANTS[variant]

    def fn(e):
        """n_prior earlier computations with other configurations, then the one under test; every value must be the contract function of
        the *current* call's inputs (recomputed here independently)"""
        import numpy

        import ghedesigner.gfunction as GFM
        from ghedesigner.enums import BHPipeType
        log_time = [-8.5, -2.0, 3.0]
        tags = ['h%d' % i for i in range(n_prior)] + ['now']
        vals = [_gf_values(e.real, t, symbolic) for t in tags]
        out = None
        for v in vals:
            o = _gf_objects(v)
            out = GFM.calc_g_func_for_multiple_lengths(5.0, GF_HEIGHTS, v['r_b'], v['depth'], v['m_flow'], BHPipeType.SINGLEUTUBE, log_time, GF_COORDS,
                                                       o['fluid'], o['pipe'], o['grout'], o['soil'])
        v = vals[-1]
        # counterexamples that survive the native replay: configurations that differ by a margin
        pref = []
        for f in sorted(symbolic):
            lo, hi, _ = GF_FIELDS[f]
            a, b = _r(vals[0][f]), _r(v[f])
            pref.append(z3.Or(a - b >= _r(0.2 * (hi - lo)), b - a >= _r(0.2 * (hi - lo))))
        e.prefer = pref
        cs = []
        geo = sum((i + 1) * (13.0 * x + 7.0 * y) for i, (x, y) in enumerate(GF_COORDS)) + 1000.0 * len(GF_COORDS)
        for h in GF_HEIGHTS:
            alpha = v['k_s'] / v['rhocp_s']
            ts = h ** 2 / (9.0 * alpha)
            exp_vals = []
            for lt in log_time:
                args = [h, v['depth'], v['r_b'], alpha, len(GF_COORDS) * v['m_flow'], v['cp_f'], v['k_g'], v['k_s'], v['k_p'], v['mu_f'], v['m_flow'],
                        geo, 8.0, float(len('MIFT') + 10 * len('equivalent'))]
                exp_vals.append(Sym(GFV(*[_r(a) for a in args], _r(float(numpy.exp(lt)) * ts))))
            got = out.g_lts[h]
            cs.append(len(got) == len(exp_vals))
            cs += [g == x for g, x in zip(got, exp_vals)]
            cs.append(out.r_b_values[h] is v['r_b'] or out.r_b_values[h] == v['r_b'])
        return conj(cs)
    return fn


def gfcalc_replay(n_prior, variant):
    symbolic = GF_VARIANTS[variant]

    def replay(model, notes):
        """native: real pygfunction; the history in this process, then the module reloaded (fresh state) and the last computation alone"""
        restore_shadows()
        import importlib
        import warnings
        warnings.simplefilter('ignore')
        import ghedesigner.gfunction as GFM
        from ghedesigner.enums import BHPipeType
        from ghedesigner.utilities import eskilson_log_times

        def run(mod, tag):
            v = _gf_values(lambda name, lo, hi: min(max(float(model[name]), lo), hi), tag, symbolic)
            o = _gf_objects(v)
            gf = mod.calc_g_func_for_multiple_lengths(5.0, GF_HEIGHTS, v['r_b'], v['depth'], v['m_flow'], BHPipeType.SINGLEUTUBE, eskilson_log_times(), GF_COORDS,
                                                      o['fluid'], o['pipe'], o['grout'], o['soil'])
            return {h: list(vs) for h, vs in gf.g_lts.items()}
        last = None
        for tag in ['h%d' % i for i in range(n_prior)] + ['now']:
            last = run(GFM, tag)
        fresh = run(importlib.reload(GFM), 'now')
        return last != fresh, dict(after_history={h: v[:3] for h, v in last.items()}, fresh={h: v[:3] for h, v in fresh.items()})
    return replay


def units(tier, seed):
    rnd = random.Random(seed)
    F1 = ['ground_heat_exchangers.py:GHE.simulate', 'ground_heat_exchangers.py:GHE.size', 'utilities.py:solve_root']
    F2 = ['gfunction.py:GFunction.g_function_interpolation']
    F3 = SP.FUNCS
    ST1 = ['_simulate_detailed -> uninterpreted SIM(H, len(q), len(t), t_first, t_last, g)', 'grab_g_function -> uninterpreted function of B/H',
           'brentq -> arbitrary point of the bracket (objective evaluated there)']
    us = []
    ops = ['hybrid', 'hourly', 'size']
    prefixes = [()] + [(o,) for o in ops] + ([(a, b) for a in ops for b in ops] if tier == 'thorough' else [('hybrid', 'size'), ('size', 'hourly'), ('hourly', 'hybrid')])
    # horizons that are not whole years (the hourly branch derives its number of hours from the length of the load list), and
    # exchangers that share the caller's load list
    for months in (18, 7):
        us.append(Unit('ghe_%dmonths_hourly_then_hourly' % months, ghe_history_fn(('hourly',), 'hourly', end_month=months), None, ghe_setup, F1,
                       'horizon %d months; the same hourly simulation twice on one object against a fresh object; heights symbolic' % months, stubs=ST1))
    for fm, sm, op in ((24, 12, 'hourly'), (18, 18, 'hourly'), (24, 12, 'hybrid')):
        us.append(Unit('shared_loads_%d_then_%d_%s' % (fm, sm, op), shared_loads_fn(fm, sm, op), None, ghe_setup, F1,
                       'two exchangers on one hourly-loads list (%d then %d months, %s) against one on a fresh list; the list itself unchanged' % (fm, sm, op), stubs=ST1))
    for pre in prefixes:
        for fin in ('hybrid', 'hourly'):
            us.append(Unit('ghe_%s_then_%s' % ('_'.join(pre) or 'nothing', fin), ghe_history_fn(pre, fin), ghe_history_replay(pre, fin), ghe_setup, F1,
                           'earlier operations %s at symbolic heights in [20,400], then simulate(%s) at symbolic H; compared with a fresh object' % (list(pre), fin),
                           stubs=ST1))
    for n in ([2, 3] if tier == 'quick' else [2, 3, 5]):
        us.append(Unit('gfunction_cache_%dcurves' % n, cache_fn(n), cache_replay(n), cache_setup, F2,
                       '%d stored heights; earlier query at ha and query at hb, both all reals in [10,500] (in and out of range)' % n,
                       stubs=['interp1d -> contract keyed by (kind, nodes): uninterpreted value, ValueError out of range unless extrapolate']))
    for kind, p in [('ns', dict(n=3)), ('rect', SP.LOTS_RECT[0]), ('2d', SP.LOTS_2D[0]), ('zd_zoned', SP.LOTS_ZD[0])]:
        for variant in ('repeat', 'nominal_height', 'after_unrelated', 'same_manager_reconfigured'):
            if tier == 'quick' and ((kind in ('2d', 'zd_zoned') and variant != 'nominal_height') or (kind == 'rect' and variant == 'after_unrelated')):
                continue
            us.append(Unit('search_%s_%s' % (kind, variant), search_history_fn(kind, p, variant), None, SP.setup, F3,
                           '%s search (%s): %s; all sign patterns of the abstract temperatures' % (kind, p, variant), SP.ASSUME, SP.STUBS, max_seconds=1500))
    names = ['grout', 'soil', 'pipe', 'borehole', 'sim', 'loads', 'geom']
    perms = [tuple(names)] + [tuple(rnd.sample(names, len(names))) for _ in range(23 if tier == 'quick' else 200)]
    us.append(Unit('setter_permutations', setters_fn(perms), None, setters_setup, ['manager.py:GHEManager.set_*'],
                   '%d orders of the 7 independent setters; numeric arguments symbolic' % len(perms), stubs=['GHEBorehole -> plain record']))
    us.append(Unit('mutable_defaults', defaults_fn, None, defaults_setup, ['domains.py:polygonal_land_constraint', 'design.py:DesignBiRectangleConstrained.__init__'],
                   'two successive calls with the default keep_contour; b_min all reals in [5,8]'))
    from . import c15
    for n_prior, variant in [(1, 'all'), (1, 'media'), (1, 'soil_k'), (1, 'flow_geometry'), (2, 'media')]:
        us.append(Unit('gfunction_computation_%s_after_%d_other' % (variant, n_prior), gfcalc_fn(n_prior, variant), gfcalc_replay(n_prior, variant), gfcalc_setup,
                       ['gfunction.py:calc_g_func_for_multiple_lengths', 'gfunction.py:calculate_g_function', 'gfunction.py:GFunction.__init__'],
                       '%d earlier computation(s) differing in %s (all reals in their physical ranges; everything else concrete and equal), then the one under test; '
                       '3-borehole field, 2 heights, 3 times' % (n_prior, sorted(GF_VARIANTS[variant])),
                       ['floats as reals'], ['pygfunction Network / gFunction / pipe-model factory / Borehole record -> contract: uninterpreted function GFV of every input of the current call'],
                       max_seconds=300))
    us.append(Unit('equivalent_tube_twice', equivalent_twice_fn, None, c15.setup, ['borehole_heat_exchangers.py:GHEDesignerBoreholeWithMultiplePipes.equivalent_single_u_tube'],
                   'double-U radii symbolic; conversion applied twice to one object'))
    return us
