"""Schema -> constraint translator for the JSON-schema subset used by /repo/ghedesigner/schemas (type, properties,
required, minimum, maximum, enum, const, items, minItems, maxItems).  Regenerated from the schema files on every run;
cross-validated against the real jsonschema package on concrete instances by the harnesses."""
import json
import os

import z3

from symx import *  # noqa: F403


def schema_dir():
    import ghedesigner
    return os.path.join(os.path.dirname(ghedesigner.__file__), 'schemas')


def load(name):
    return json.load(open(os.path.join(schema_dir(), name)))


ALL_KEYWORDS = object()      # pass as `enforced` to apply every translated keyword whatever the dialect
SUPPORTED = {'type', 'properties', 'required', 'minimum', 'maximum', 'enum', 'const', 'items', 'minItems', 'maxItems',
             'description', 'format', 'units', 'default', '$schema', '$id', 'title', 'additionalProperties', 'exclusiveMinimum', 'exclusiveMaximum'}


def _and(xs):
    xs = list(xs)
    if any(isinstance(x, (SymBool, Sym)) for x in xs):
        return all_of(xs)
    return all(bool(x) for x in xs)


def is_number(v):
    if isinstance(v, bool):
        return False
    return isinstance(v, (int, float, Sym))


def enforced_keywords(root_schema):
    """the keywords that the validator class which jsonschema.validate() selects for this schema (by its "$schema" dialect) acts on.
    All of /repo's schemas declare draft-04, where e.g. "const" is not a keyword and is ignored; read from the installed jsonschema."""
    import jsonschema
    return frozenset(jsonschema.validators.validator_for(root_schema).VALIDATORS)


def holds(schema, v, enforced=None):
    """does instance v (python / z3-proxy tree) satisfy the schema, as the dialect it declares defines it?  -> bool or SymBool"""
    if enforced is None:
        enforced = enforced_keywords(schema)
    if enforced is not ALL_KEYWORDS:
        if isinstance(schema.get('exclusiveMinimum'), bool) or isinstance(schema.get('exclusiveMaximum'), bool):
            raise Unsupported('draft-04 boolean exclusiveMinimum/exclusiveMaximum not translated')
        schema = {k: val for k, val in schema.items() if k in enforced or k in ('description', 'format', 'units', 'default', '$schema', '$id', 'title')}
    unknown = set(schema) - SUPPORTED
    if unknown:
        raise Unsupported('schema keyword not translated: %s' % sorted(unknown))
    cs = []
    t = schema.get('type')
    if t == 'number':
        if not is_number(v):
            return False
    elif t == 'integer':
        if not is_number(v):
            return False
        if isinstance(v, Sym) and not v.is_int:
            cs.append(SymBool(z3.IsInt(v.t)))
        elif isinstance(v, float) and not v.is_integer():
            return False
    elif t == 'string':
        if not isinstance(v, str):
            return False
    elif t == 'boolean':
        if not isinstance(v, (bool, SymBool)):
            return False
    elif t == 'array':
        if not isinstance(v, (list, tuple)):
            return False
    elif t == 'object':
        if not isinstance(v, dict):
            return False
    elif t is not None:
        raise Unsupported('schema type %r' % t)
    if is_number(v):
        if 'minimum' in schema:
            cs.append(v >= schema['minimum'])
        if 'maximum' in schema:
            cs.append(v <= schema['maximum'])
        if 'exclusiveMinimum' in schema:
            cs.append(v > schema['exclusiveMinimum'])
        if 'exclusiveMaximum' in schema:
            cs.append(v < schema['exclusiveMaximum'])
    if 'enum' in schema:
        if isinstance(v, (Sym, SymBool)) or v not in schema['enum']:
            return False
    if 'const' in schema:
        if isinstance(v, (Sym, SymBool)) or v != schema['const']:
            return False
    if isinstance(v, (list, tuple)):
        if 'minItems' in schema and len(v) < schema['minItems']:
            return False
        if 'maxItems' in schema and len(v) > schema['maxItems']:
            return False
        if 'items' in schema:
            cs += [holds(schema['items'], x, enforced) for x in v]
    if isinstance(v, dict):
        for k in schema.get('required', []):
            if k not in v:
                return False
        for k, sub in schema.get('properties', {}).items():
            if k in v:
                cs.append(holds(sub, v[k], enforced))
        if schema.get('additionalProperties') is False:
            if set(v) - set(schema.get('properties', {})):
                return False
    return _and(cs)


def section_verdicts(instance):
    """what validate.validate_input_file decides, section by section, written independently: dict name -> bool/SymBool.
    Enum-like fields are compared case-insensitively as the validator upper-cases them first."""
    from ghedesigner.enums import BHPipeType, DesignGeomType
    out = {}
    out['file_structure'] = holds(load('file_structure.schema.json'), instance)

    def up(d, key, optional=False):
        d = dict(d)
        if key in d or not optional:
            d[key] = str(d[key]).upper()
        return d
    out['fluid'] = holds(load('fluid.schema.json'), up(instance['fluid'], 'fluid_name'))
    out['grout'] = holds(load('grout.schema.json'), instance['grout'])
    out['soil'] = holds(load('soil.schema.json'), instance['soil'])
    pipe = up(instance['pipe'], 'arrangement')
    pm = {BHPipeType.SINGLEUTUBE.name: 'pipe_single_double_u_tube.schema.json', BHPipeType.DOUBLEUTUBESERIES.name: 'pipe_single_double_u_tube.schema.json',
          BHPipeType.DOUBLEUTUBEPARALLEL.name: 'pipe_single_double_u_tube.schema.json', BHPipeType.COAXIAL.name: 'pipe_coaxial.schema.json'}
    out['pipe'] = holds(load(pm[pipe['arrangement']]), pipe) if pipe['arrangement'] in pm else False
    out['borehole'] = holds(load('borehole.schema.json'), instance['borehole'])
    out['simulation'] = holds(load('simulation.schema.json'), up(instance['simulation'], 'timestep', optional=True))
    geo = up(instance['geometric_constraints'], 'method')
    gm = {DesignGeomType.BIRECTANGLE.name: 'geometric_bi_rectangle.schema.json', DesignGeomType.BIRECTANGLECONSTRAINED.name: 'geometric_bi_rectangle_constrained.schema.json',
          DesignGeomType.BIZONEDRECTANGLE.name: 'geometric_bi_zoned_rectangle.schema.json', DesignGeomType.NEARSQUARE.name: 'geometric_near_square.schema.json',
          DesignGeomType.RECTANGLE.name: 'geometric_rectangle.schema.json', DesignGeomType.ROWWISE.name: 'geometric_rowwise.schema.json'}
    out['geometric_constraints'] = holds(load(gm[geo['method']]), geo) if geo['method'] in gm else False
    out['design'] = holds(load('design.schema.json'), up(instance['design'], 'flow_type'))
    return out


def concretize(tree, model_eval):
    if isinstance(tree, dict):
        return {k: concretize(v, model_eval) for k, v in tree.items()}
    if isinstance(tree, (list, tuple)):
        return [concretize(v, model_eval) for v in tree]
    if isinstance(tree, Sym):
        return model_eval(tree)
    return tree
