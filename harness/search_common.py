"""Pattern A (DESIGN 2.3): the real search / sizing control code runs; the thermal evaluation is
replaced by free symbolic temperatures per (candidate field, height).

Real code executed: Bisection1D.__init__/search/initialize_ghe/calculate_excess/retrieve_flow,
Bisection2D.__init__, BisectionZD.__init__/search_successive, RowWiseModifiedBisectionSearch.*,
GHE.size, BaseGHE.cost, utilities.sign/check_bracket/solve_root/borehole_spacing,
GHEManager.find_design.

Stubs (each is part of the claim):
  GHE.__init__          -> light constructor (no pipe model, no radial model, no hybrid loads)
  GHE.simulate          -> (max_EFT_allowable + A[field,H], min_EFT_allowable - B[field,H]); A, B free reals,
                           deterministic in (field, H); records the height it was computed at
  GHE.compute_g_functions -> no-op
  calc_g_func_for_multiple_lengths -> token carrying bore_locations
  scipy brentq          -> x_ret, x_last in [lo,hi], |x_ret-x_last| <= xtol+rtol*hi, f evaluated (by the real
                           objective) at x_last last, |f(x_last)| <= EPS_F
  field_optimization_*  -> concrete field whose size is a decreasing function of the target spacing
"""
import math
from types import SimpleNamespace as NS

import z3

from symx import *  # noqa: F403
from symx.runner import shadow

EPS_F = 2.0e-4       # |f| at the point brentq evaluated last (Lipschitz 1 K/m x (xtol + rtol*H))
TOL = 1.0e-3         # sizing tolerance of the property statement
CTX = None


class ReplayDiverged(Exception):
    pass


class SearchCtx:
    def __init__(self, e=None, model=None, min_h=None, max_h=None, upper=35.0, lower=5.0):
        global CTX
        CTX = self
        self.e = e
        self.model = model
        self.fields = {}
        self.field_list = []
        self.vals = {}
        self.evals = []       # (field idx, hk)
        self.msgs = []
        self.xs = []          # brentq points [(x_ret, x_last)]
        self.init_calls = []  # (field idx, hk, specifier) of every GHE construction
        self.flow_records = []
        self.hvals = {}       # height key -> height
        self.upper, self.lower = upper, lower
        self.min_h = self.num('min_h', 20, 300) if min_h is None else min_h
        self.max_h = self.num('max_h', 21, 400) if max_h is None else max_h
        if e is not None:
            e.assume(self.min_h < self.max_h)
        self.sized = 0
        self.root_memo = {}

    @property
    def sym(self):
        return self.e is not None

    def num(self, name, lo=None, hi=None):
        if self.e is not None:
            return self.e.real(name, lo, hi)
        if name not in self.model:
            raise ReplayDiverged('replay reached a value the symbolic run never created: ' + name)
        return float(self.model[name])

    def field_idx(self, coords):
        key = tuple(sorted((float(x), float(y)) for x, y in coords))   # a field is a set of boreholes
        if key not in self.fields:
            self.fields[key] = len(self.field_list)
            self.field_list.append(key)
        return self.fields[key]

    def _same(self, a, b):
        if isinstance(a, Sym) or isinstance(b, Sym):
            return isinstance(a, Sym) and isinstance(b, Sym) and a.t.eq(b.t)
        return a == b

    def hkey(self, h):
        if self._same(h, self.min_h):
            return 'lo'
        if self._same(h, self.max_h):
            return 'hi'
        for k, (xr, xl) in enumerate(self.xs):
            if self._same(h, xl):
                return 'xl%d' % k
            if self._same(h, xr):
                return 'xr%d' % k
        if isinstance(h, Sym):
            return 'h_' + ''.join(c for c in z3.simplify(h.t).sexpr() if c.isalnum())[:40]
        return 'h_%r' % h

    def eft(self, coords, h):
        i = self.field_idx(coords)
        hk = self.hkey(h)
        self.hvals[hk] = h
        self.evals.append((i, hk))
        return self.ab(i, hk)

    def ab(self, i, hk):
        if (i, hk) not in self.vals:
            a = self.num('A_%d_%s' % (i, hk), -60, 60)
            b = self.num('B_%d_%s' % (i, hk), -60, 60)
            if self.e is not None:
                # non-degenerate input: the excess max(a, b) is never exactly zero (measure-zero; gives int(nan))
                self.e.assume((a != 0) & (b != 0))
            if self.e is not None and hk == 'hi':
                # distinct candidates have distinct excess values at maximum height (ties are measure-zero for
                # physical loads; the final pick looks a field up by value) - stated assumption
                ex = sym_max(a, b)
                for (j, hk2), (a2, b2) in self.vals.items():
                    if hk2 == 'hi' and j != i:
                        self.e.assume(ex != sym_max(a2, b2))
            if self.e is not None and hk.startswith('xr'):
                # the returned root lies within delta of the last evaluated point: both EFT curves are
                # assumed 1 K/m-Lipschitz in height there (stated assumption of the brentq stub)
                k = int(hk[2:])
                xr, xl = self.xs[k]
                a0, b0 = self.ab(i, 'xl%d' % k)
                self.e.assume((abs(a - a0) <= abs(xr - xl)) & (abs(b - b0) <= abs(xr - xl)))
            if self.e is not None and hk.startswith('h_') and hk in self.hvals:
                # a height that is none of the bounds / solver points (e.g. a rounded one): the same 1 K/m Lipschitz assumption ties its
                # temperatures to those of the same field at the heights already evaluated
                h = self.hvals[hk]
                for (j, hk2), (a2, b2) in list(self.vals.items()):
                    if j == i and hk2 in self.hvals:
                        d = abs(h - self.hvals[hk2])
                        self.e.assume((abs(a - a2) <= d) & (abs(b - b2) <= d))
            self.vals[(i, hk)] = (a, b)
        return self.vals[(i, hk)]

    def excess(self, i, hk):
        a, b = self.ab(i, hk)
        return sym_max(a, b)

    def excess_if_known(self, i, hk):
        if (i, hk) in self.vals:
            return self.excess(i, hk)
        return None


def conj(xs):
    xs = list(xs)
    if any(isinstance(x, (SymBool, Sym)) for x in xs):
        return all_of(xs)
    return all(bool(x) for x in xs)


def disj(xs):
    xs = list(xs)
    if any(isinstance(x, (SymBool, Sym)) for x in xs):
        return any_of(xs)
    return any(bool(x) for x in xs)


def implies(a, b):
    if isinstance(a, SymBool) or isinstance(b, SymBool):
        a = a if isinstance(a, SymBool) else SymBool(bool(a))
        return a.implies(b)
    return (not a) or bool(b)


# ------------------------------------------------------------------------------------------------
def install():
    import ghedesigner.ground_heat_exchangers as G
    import ghedesigner.manager as M
    import ghedesigner.search_routines as SR
    import ghedesigner.utilities as U

    class LightGHE(G.GHE):
        def __init__(self, v_flow_system, b_spacing, bhe_type, fluid, borehole, pipe, grout, soil, g_function,
                     sim_params, hourly_extraction_ground_loads, field_type="N/A", field_specifier="N/A", load_years=None):
            self.fieldType = field_type
            self.fieldSpecifier = field_specifier
            self.V_flow_system = v_flow_system
            self.B_spacing = b_spacing
            self.nbh = len(g_function.bore_locations)
            self.V_flow_borehole = self.V_flow_system / self.nbh
            self.m_flow_borehole = self.V_flow_borehole / 1000.0 * fluid.rho
            self.bhe_type = bhe_type
            self.bhe = NS(b=borehole, fluid=fluid, pipe=pipe, grout=grout, soil=soil, m_flow_borehole=self.m_flow_borehole)
            self.gFunction = g_function
            self.sim_params = sim_params
            self.hourly_extraction_ground_loads = hourly_extraction_ground_loads
            self.times = []
            self.loading = None
            self.hp_eft = []
            self.dTb = []
            self.sim_h = None           # height tag of the most recent simulate()
            self.sim_field = None
            CTX.init_calls.append((CTX.field_idx(g_function.bore_locations), CTX.hkey(borehole.H), field_specifier))
            # flow handed to the g-function computation of this candidate vs the flow of the exchanger built on it
            CTX.flow_records.append((getattr(g_function, 'm_flow_borehole', None), self.m_flow_borehole, self.nbh, v_flow_system))

        def simulate(self, method):
            h = self.bhe.b.H
            a, b = CTX.eft(self.gFunction.bore_locations, h)
            mx = CTX.upper + a
            mn = CTX.lower - b
            self.hp_eft = [mx, mn]
            self.sim_h = h
            self.sim_field = CTX.field_idx(self.gFunction.bore_locations)
            return mx, mn

        def compute_g_functions(self):
            CTX.msgs.append('compute_g_functions')

        def size(self, method):
            CTX.sized += 1
            return G.GHE.size(self, method)

    def fake_gfunc(b, h_values, r_b, depth, m_flow_borehole, bhe_type, log_time, coordinates, fluid, pipe, grout, soil, **kw):
        return NS(bore_locations=coordinates, log_time=log_time, B=b, h_values=list(h_values), m_flow_borehole=m_flow_borehole)

    def brentq_stub(f, lo, hi, xtol=2e-12, rtol=8.9e-16, maxiter=100, **kw):
        # brentq is deterministic: the same field and bracket give the same root again
        mk = None
        for cell in (getattr(f, '__closure__', None) or ()):
            if isinstance(cell.cell_contents, LightGHE):
                g = cell.cell_contents
                mk = (CTX.field_idx(g.gFunction.bore_locations), CTX.hkey(lo), CTX.hkey(hi))
        if mk is not None and mk in CTX.root_memo:
            x_ret, x_last = CTX.xs[CTX.root_memo[mk]]
            f(x_last)
            return x_ret
        k = len(CTX.xs)
        if mk is not None:
            CTX.root_memo[mk] = k
        x_ret = CTX.num('xret%d' % k)
        x_last = CTX.num('xlast%d' % k)
        if CTX.sym:
            e = CTX.e
            e.assume((x_ret >= lo) & (x_ret <= hi) & (x_last >= lo) & (x_last <= hi))
            e.assume(abs(x_ret - x_last) <= xtol + rtol * hi)
            # brentq only evaluates interior points different from the bracket ends it was given
            e.assume((x_last > lo) & (x_last < hi))
        CTX.xs.append((x_ret, x_last))
        fx = f(x_last)
        if CTX.sym:
            CTX.e.assume(abs(fx) <= EPS_F)
        return x_ret

    def rec_print(*a, **k):
        CTX.msgs.append(' '.join(str(x) for x in a))

    shadow(SR, 'GHE', LightGHE)
    shadow(SR, 'calc_g_func_for_multiple_lengths', fake_gfunc)
    shadow(SR, 'print', rec_print)
    shadow(U, 'int', sym_int)
    shadow(U, 'brentq', brentq_stub)
    shadow(G, 'max', sym_max)
    shadow(M, 'time', lambda: 0.0)
    return LightGHE


def light_parts(h0=100.0):
    from ghedesigner.borehole import GHEBorehole
    from ghedesigner.enums import BHPipeType
    bh = GHEBorehole(h0, 2.0, 0.075, 0.0, 0.0)
    fluid = NS(rho=998.2, cp=4182.0)
    return dict(borehole=bh, bhe_type=BHPipeType.SINGLEUTUBE, fluid=fluid, pipe=NS(), grout=NS(), soil=NS())


def sim_params(ctx, max_bh=None, cont=False):
    from ghedesigner.simulation import SimulationParameters
    return SimulationParameters(1, 240, ctx.upper, ctx.lower, ctx.max_h, ctx.min_h, max_bh, cont)


def final_state(ctx, search):
    """(field idx, final height, height key) of the design the manager would report."""
    ghe = search.ghe
    i = ctx.field_idx(ghe.gFunction.bore_locations)
    h = ghe.bhe.b.H
    return i, h, ctx.hkey(h)


def excess_bound_at(ctx, i, hk):
    """Upper bound on the excess at the final height implied by what the code evaluated:
    evaluated heights -> the symbolic value itself; a brentq point -> EPS_F + Lipschitz * delta."""
    if hk.startswith('xr'):
        k = int(hk[2:])
        xr, xl = ctx.xs[k]
        fa = ctx.excess(i, 'xl%d' % k)
        return abs(fa) + abs(xr - xl) * 1.0, True
    return ctx.excess(i, hk), False
