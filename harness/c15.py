"""C15 - equivalent single U-tube preserves the exchanger's bulk properties (geometry part)."""
import math
from types import SimpleNamespace as NS

import z3

from symx import *  # noqa: F403
from symx.runner import Unit, restore_shadows, shadow

from .search_common import conj, implies

PROPERTY = 'C15'
EXPLANATION = ('MultipleUTube.u_tube_volumes, CoaxialPipe.concentric_tube_volumes and the geometry part of '
               'GHEDesignerBoreholeWithMultiplePipes.equivalent_single_u_tube (equal-volume radii, spacing fallback with the enlarged '
               'borehole, pipe placement, pipe conductivity seed) run on symbolic radii; sqrt carries its defining equation. Asserted: '
               '2 pi r_i\'^2 = fluid volume and 2 pi (r_o\'^2 - r_i\'^2) = pipe-wall volume per metre, with the volumes written independently '
               'from the double-U / coaxial cross-sections; both legs of the equivalent tube lie inside the (possibly enlarged) borehole '
               'and do not overlap; the seed conductivity reproduces the pipe resistance; SingleUTube.to_single returns the object itself.')
OUTSIDE = ('NOT claimed: that the equivalent tube reproduces the combined convective-plus-pipe resistance and the effective borehole '
           'resistance within 0.1 % - both are brentq root solves through pygfunction\'s Gnielinski/Colebrook correlation and the multipole '
           'solution (fractional powers, iteration, complex arithmetic); not encodable, and that the brackets contain the roots is a '
           'numerical fact.')
PI = math.pi


def setup():
    import ghedesigner.borehole_heat_exchangers as B
    created = []

    class FakeSingle:
        def __init__(self, m_flow_borehole, fluid, borehole, pipe, grout, soil):
            self.m_flow_borehole, self.fluid, self.b, self.pipe, self.grout, self.soil = m_flow_borehole, fluid, borehole, pipe, grout, soil
            created.append(self)
    shadow(B, 'REAL_SingleUTube', B.SingleUTube)
    shadow(B, 'SingleUTube', FakeSingle)
    shadow(B, 'sqrt', sym_sqrt_exact)
    shadow(B, 'log', sym_log_product)
    shadow(B, 'solve_root', lambda *a, **k: None)
    shadow(B, 'deepcopy', _copy)
    shadow(B, 'CREATED', created)


def _copy(x):
    if isinstance(x, NS):
        return NS(**{k: _copy(v) for k, v in vars(x).items()})
    return x


class V:
    def __init__(self, e=None, model=None):
        self.e, self.model = e, model

    def real(self, name, lo=None, hi=None):
        return self.e.real(name, lo, hi) if self.e is not None else float(self.model[name])

    def assume(self, c):
        if self.e is not None:
            self.e.assume(c)

    def eq(self, a, b):
        if self.e is not None:
            return a == b
        return abs(a - b) <= 1e-9 * (abs(a) + abs(b)) + 1e-15


def geometry_checks(v, B, single, r_b, vol_fluid_indep, vol_pipe_indep, resist_pipe):
    ri, ro = single.pipe.r_in, single.pipe.r_out
    cs = [v.eq(2 * PI * ri * ri, vol_fluid_indep), v.eq(2 * PI * (ro * ro - ri * ri), vol_pipe_indep), ri > 0, ro > ri]
    rb_new = single.b.r_b
    cs.append(rb_new >= r_b)                           # the borehole is never shrunk
    pos = single.pipe.pos
    cs.append(len(pos) == 2)
    x0, x1 = pos[0][0], pos[1][0]
    # legs on the x-axis (sin(pi) is 1e-16, ignored), inside the borehole, not overlapping
    cs += [abs(x0) + ro <= rb_new + 1e-12, abs(x1) + ro <= rb_new + 1e-12, abs(x0 - x1) >= 2 * ro - 1e-12]
    cs.append(v.eq(single.pipe.s, abs(x0 - x1) - 2 * ro))          # shank spacing is the edge-to-edge distance of the legs
    cs.append(implies(r_b * 2 - ro * 4 > 0, v.eq(rb_new, r_b)))     # enlarged only when the tubes do not fit
    return cs


def double_u_body(v):
    import ghedesigner.borehole_heat_exchangers as B
    r_in = v.real('r_in', 0.005, 0.03)
    r_out = v.real('r_out', 0.006, 0.04)
    r_b = v.real('r_b', 0.04, 0.15)
    k_p = v.real('k_p', 0.2, 1.0)
    v.assume(r_out > r_in)
    if v.e is not None:      # ln is strictly increasing: lemma instance for the uninterpreted L
        v.e.add(z3.Implies(r_out.t > r_in.t, LN(r_out.t) > LN(r_in.t)))
    tok = NS(nPipes=2, r_in=r_in, r_out=r_out, h_f=1500.0, pipe=NS(k=k_p, roughness=1e-6, rhoCp=1.5e6), b=NS(r_b=r_b, H=100.0, D=2.0),
             m_flow_borehole=0.3, fluid=NS(), grout=NS(k=1.0, rhoCp=3.9e6), soil=NS())
    vf, vp, rconv, rpipe = B.MultipleUTube.u_tube_volumes(tok)
    cs = [v.eq(vf, 4 * PI * r_in * r_in), v.eq(vp, 4 * PI * (r_out * r_out - r_in * r_in))]
    single = B.GHEDesignerBoreholeWithMultiplePipes.equivalent_single_u_tube(tok, vf, vp, rconv, rpipe)
    cs += geometry_checks(v, B, single, r_b, 4 * PI * r_in * r_in, 4 * PI * (r_out * r_out - r_in * r_in), rpipe)
    cs.append(tok.b.r_b is r_b if v.e is not None else tok.b.r_b == r_b)       # the original borehole is not modified (copy)
    cs.append(single.grout is not tok.grout)
    return cs


def coaxial_body(v):
    import ghedesigner.borehole_heat_exchangers as B
    a = v.real('r_in_in', 0.005, 0.03)
    b = v.real('r_in_out', 0.006, 0.035)
    c = v.real('r_out_in', 0.01, 0.06)
    d = v.real('r_out_out', 0.012, 0.07)
    r_b = v.real('r_b', 0.04, 0.15)
    v.assume((a < b) & (b < c) & (c < d))
    if v.e is not None:
        v.e.add(z3.Implies(d.t > c.t, LN(d.t) > LN(c.t)))
    tok = NS(r_inner=[a, b], r_outer=[c, d], h_f_a_in=900.0, pipe=NS(k=[0.4, 0.4], roughness=1e-6, rhoCp=1.5e6), b=NS(r_b=r_b, H=100.0, D=2.0),
             m_flow_borehole=0.3, fluid=NS(), grout=NS(k=1.0, rhoCp=3.9e6), soil=NS())
    vf, vp, rconv, rpipe = B.CoaxialPipe.concentric_tube_volumes(tok)
    fluid = PI * a * a + PI * (c * c - b * b)             # inner bore + annulus
    wall = PI * (b * b - a * a) + PI * (d * d - c * c)    # inner pipe wall + outer pipe wall
    cs = [v.eq(vf, fluid), v.eq(vp, wall)]
    single = B.GHEDesignerBoreholeWithMultiplePipes.equivalent_single_u_tube(tok, vf, vp, rconv, rpipe)
    cs += geometry_checks(v, B, single, r_b, fluid, wall, rpipe)
    return cs


def make_fn(body, twin=False):
    def fn(e):
        cs = body(V(e=e))
        return False if twin else conj(cs)
    return fn


def make_replay(body):
    def replay(model, notes):
        restore_shadows()
        setup()
        import ghedesigner.borehole_heat_exchangers as B
        shadow(B, 'sqrt', math.sqrt)
        shadow(B, 'log', math.log)
        try:
            cs = body(V(model=model))
        finally:
            restore_shadows()
        bad = [k for k, c in enumerate(cs) if not bool(c)]
        return bool(bad), dict(failed=bad, inputs=model)
    return replay


def to_single_fn(e):
    import ghedesigner.borehole_heat_exchangers as B
    tok = NS(x=e.real('x'))
    return B.REAL_SingleUTube.to_single(tok) is tok


def units(tier, seed):
    F = ['borehole_heat_exchangers.py:MultipleUTube.u_tube_volumes', 'borehole_heat_exchangers.py:CoaxialPipe.concentric_tube_volumes',
         'borehole_heat_exchangers.py:GHEDesignerBoreholeWithMultiplePipes.equivalent_single_u_tube', 'media.py:Pipe.place_pipes',
         'borehole_heat_exchangers.py:SingleUTube.to_single']
    ST = ['SingleUTube constructor -> recorder (pygfunction pipe model not built)', 'solve_root -> no-op (the two resistance matches are not claimed)',
          'sqrt with its defining equation d*d == x; log -> uninterpreted with product rule', 'deepcopy -> namespace copy']
    AS = ['floats as reals', 'radii ordered so that the geometry exists (r_in < r_out; coaxial r_in_in < r_in_out < r_out_in < r_out_out)']
    return [
        Unit('double_u', make_fn(double_u_body), make_replay(double_u_body), setup, F, 'r_in in [5,30] mm, r_out in [6,40] mm, r_b in [40,150] mm, all reals (both fitting and non-fitting tubes)', AS, ST, max_seconds=600),
        Unit('coaxial', make_fn(coaxial_body), make_replay(coaxial_body), setup, F, 'four coaxial radii and r_b, all reals within mm-scale ranges', AS, ST, max_seconds=600),
        Unit('single_to_single', to_single_fn, None, setup, F[4:], 'any object'),
        Unit('twin_reachability', make_fn(double_u_body, twin=True), None, setup, F, 'assert False must be violated', expect_cex=True),
    ]
