"""C15 - equivalent single U-tube preserves the exchanger's bulk properties (geometry part)."""
import math
from types import SimpleNamespace as NS

import z3

from symx import *  # noqa: F403
from symx.runner import Unit, restore_shadows, shadow

from .search_common import conj, implies

PROPERTY = 'C15'
EXPLANATION = ('MultipleUTube.u_tube_volumes, CoaxialPipe.concentric_tube_volumes and the geometry part of '
               'GHEDesignerBoreholeWithMultiplePipes.equivalent_single_u_tube (equal-volume radii, spacing fallback with the enlarged '
               'borehole, pipe placement, pipe conductivity seed) run on symbolic radii; sqrt carries its defining equation. Asserted: '
               '2 pi r_i\'^2 = fluid volume and 2 pi (r_o\'^2 - r_i\'^2) = pipe-wall volume per metre, with the volumes written independently '
               'from the double-U / coaxial cross-sections; both legs of the equivalent tube lie inside the (possibly enlarged) borehole '
               'and do not overlap; the seed conductivity reproduces the pipe resistance; SingleUTube.to_single returns the object itself. '
               'Resistance matching: the real constructors, to_single, equivalent_single_u_tube, match_effective_borehole_resistance and '
               'solve_root run on symbolic conductivities and flow over a contract model of pygfunction (delta circuit recomputed only by '
               '__init__/update_thermal_resistances; effective resistance an uninterpreted function of those stored values, decreasing in '
               'k_g). Asserted: the grout objective is strictly increasing in the trial conductivity; on bracketed paths the equivalent '
               'tube reports the original\'s effective resistance, its R_fp equals convective + pipe resistance, and its stored delta '
               'circuit, k_g, grout.k and pipe.k are the solved values; with concrete flow cases (convection coefficients from the real '
               'correlations) R_fp of the equivalent tube equals convective + pipe resistance unconditionally.')
OUTSIDE = ('NOT claimed: that the two root brackets ([k/100, 10k] for the pipe, [0.01, 7] for the grout) contain their roots - a numerical fact '
           'about the Gnielinski/Colebrook correlation and the multipole solution, which are not encodable; pygfunction enters the '
           'resistance-matching units only through the contract model stated under stubs. The 0.1 % figure is asserted as equality on '
           'the paths where the root is bracketed (brentq abstracted as an exact root finder).')
PI = math.pi


def setup():
    import ghedesigner.borehole_heat_exchangers as B
    created = []

    class FakeSingle:
        def __init__(self, m_flow_borehole, fluid, borehole, pipe, grout, soil):
            self.m_flow_borehole, self.fluid, self.b, self.pipe, self.grout, self.soil = m_flow_borehole, fluid, borehole, pipe, grout, soil
            created.append(self)
    shadow(B, 'REAL_SingleUTube', B.SingleUTube)
    shadow(B, 'SingleUTube', FakeSingle)
    shadow(B, 'sqrt', sym_sqrt_exact)
    shadow(B, 'log', sym_log_product)
    shadow(B, 'solve_root', lambda *a, **k: None)
    shadow(B, 'deepcopy', _copy)
    shadow(B, 'CREATED', created)


def _copy(x):
    if isinstance(x, NS):
        return NS(**{k: _copy(v) for k, v in vars(x).items()})
    return x


class V:
    def __init__(self, e=None, model=None):
        self.e, self.model = e, model

    def real(self, name, lo=None, hi=None):
        return self.e.real(name, lo, hi) if self.e is not None else float(self.model[name])

    def assume(self, c):
        if self.e is not None:
            self.e.assume(c)

    def eq(self, a, b):
        if self.e is not None:
            return a == b
        return abs(a - b) <= 1e-9 * (abs(a) + abs(b)) + 1e-15


def geometry_checks(v, B, single, r_b, vol_fluid_indep, vol_pipe_indep, resist_pipe):
    ri, ro = single.pipe.r_in, single.pipe.r_out
    cs = [v.eq(2 * PI * ri * ri, vol_fluid_indep), v.eq(2 * PI * (ro * ro - ri * ri), vol_pipe_indep), ri > 0, ro > ri]
    rb_new = single.b.r_b
    cs.append(rb_new >= r_b)                           # the borehole is never shrunk
    pos = single.pipe.pos
    cs.append(len(pos) == 2)
    x0, x1 = pos[0][0], pos[1][0]
    # legs on the x-axis (sin(pi) is 1e-16, ignored), inside the borehole, not overlapping
    cs += [abs(x0) + ro <= rb_new + 1e-12, abs(x1) + ro <= rb_new + 1e-12, abs(x0 - x1) >= 2 * ro - 1e-12]
    cs.append(v.eq(single.pipe.s, abs(x0 - x1) - 2 * ro))          # shank spacing is the edge-to-edge distance of the legs
    cs.append(implies(r_b * 2 - ro * 4 > 0, v.eq(rb_new, r_b)))     # enlarged only when the tubes do not fit
    return cs


def double_u_body(v):
    import ghedesigner.borehole_heat_exchangers as B
    r_in = v.real('r_in', 0.005, 0.03)
    r_out = v.real('r_out', 0.006, 0.04)
    r_b = v.real('r_b', 0.04, 0.15)
    k_p = v.real('k_p', 0.2, 1.0)
    v.assume(r_out > r_in)
    if v.e is not None:      # ln is strictly increasing: lemma instance for the uninterpreted L
        v.e.add(z3.Implies(r_out.t > r_in.t, LN(r_out.t) > LN(r_in.t)))
    tok = NS(nPipes=2, r_in=r_in, r_out=r_out, h_f=1500.0, pipe=NS(k=k_p, roughness=1e-6, rhoCp=1.5e6), b=NS(r_b=r_b, H=100.0, D=2.0),
             m_flow_borehole=0.3, fluid=NS(), grout=NS(k=1.0, rhoCp=3.9e6), soil=NS())
    vf, vp, rconv, rpipe = B.MultipleUTube.u_tube_volumes(tok)
    cs = [v.eq(vf, 4 * PI * r_in * r_in), v.eq(vp, 4 * PI * (r_out * r_out - r_in * r_in))]
    single = B.GHEDesignerBoreholeWithMultiplePipes.equivalent_single_u_tube(tok, vf, vp, rconv, rpipe)
    cs += geometry_checks(v, B, single, r_b, 4 * PI * r_in * r_in, 4 * PI * (r_out * r_out - r_in * r_in), rpipe)
    cs.append(tok.b.r_b is r_b if v.e is not None else tok.b.r_b == r_b)       # the original borehole is not modified (copy)
    cs.append(single.grout is not tok.grout)
    return cs


def coaxial_body(v):
    import ghedesigner.borehole_heat_exchangers as B
    a = v.real('r_in_in', 0.005, 0.03)
    b = v.real('r_in_out', 0.006, 0.035)
    c = v.real('r_out_in', 0.01, 0.06)
    d = v.real('r_out_out', 0.012, 0.07)
    r_b = v.real('r_b', 0.04, 0.15)
    v.assume((a < b) & (b < c) & (c < d))
    if v.e is not None:
        v.e.add(z3.Implies(d.t > c.t, LN(d.t) > LN(c.t)))
    tok = NS(r_inner=[a, b], r_outer=[c, d], h_f_a_in=900.0, pipe=NS(k=[0.4, 0.4], roughness=1e-6, rhoCp=1.5e6), b=NS(r_b=r_b, H=100.0, D=2.0),
             m_flow_borehole=0.3, fluid=NS(), grout=NS(k=1.0, rhoCp=3.9e6), soil=NS())
    vf, vp, rconv, rpipe = B.CoaxialPipe.concentric_tube_volumes(tok)
    fluid = PI * a * a + PI * (c * c - b * b)             # inner bore + annulus
    wall = PI * (b * b - a * a) + PI * (d * d - c * c)    # inner pipe wall + outer pipe wall
    cs = [v.eq(vf, fluid), v.eq(vp, wall)]
    single = B.GHEDesignerBoreholeWithMultiplePipes.equivalent_single_u_tube(tok, vf, vp, rconv, rpipe)
    cs += geometry_checks(v, B, single, r_b, fluid, wall, rpipe)
    return cs


def make_fn(body, twin=False):
    def fn(e):
        cs = body(V(e=e))
        return False if twin else conj(cs)
    return fn


def make_replay(body):
    def replay(model, notes):
        restore_shadows()
        setup()
        import ghedesigner.borehole_heat_exchangers as B
        shadow(B, 'sqrt', math.sqrt)
        shadow(B, 'log', math.log)
        try:
            cs = body(V(model=model))
        finally:
            restore_shadows()
        bad = [k for k, c in enumerate(cs) if not bool(c)]
        return bool(bad), dict(failed=bad, inputs=model)
    return replay


def to_single_fn(e):
    import ghedesigner.borehole_heat_exchangers as B
    tok = NS(x=e.real('x'))
    return B.REAL_SingleUTube.to_single(tok) is tok



# ---------------------------------------------------------------------------------------------------------------------------------
# resistance matching (the two root solves) under a contract model of pygfunction's pipe classes
#
# pygfunction contract used (read from pygfunction/pipes.py): the delta-circuit resistances `_Rd` are computed by __init__ and by
# update_thermal_resistances(...) only, from (pos, r_out, r_b, k_s, self.k_g, R_fp[, R_ff]); _initialize_stored_coefficients()
# only clears caches; effective_borehole_thermal_resistance(m_flow, cp) is a function of `_Rd`, the length and the flow. The
# effective resistance is therefore modelled as an uninterpreted RBK(k_g, R_fp, R_ff, k_s, m_flow, object) *of the values `_Rd` was
# last computed from*, positive and strictly decreasing in the grout conductivity (instances for the pairs that occur).
RBK = z3.Function('RBK', z3.RealSort(), z3.RealSort(), z3.RealSort(), z3.RealSort(), z3.RealSort(), z3.IntSort(), z3.RealSort())
GEOMS = {
    # name: (kind, radii..., r_b)
    'double_u_parallel': dict(kind='du', config='PARALLEL', r_in=0.0108, r_out=0.013335, s=0.0323, r_b=0.075),
    'double_u_series': dict(kind='du', config='SERIES', r_in=0.01702, r_out=0.02108, s=0.02, r_b=0.07),
    'double_u_tight': dict(kind='du', config='PARALLEL', r_in=0.016, r_out=0.02, s=0.018, r_b=0.05),      # equivalent tube does not fit: enlarged borehole
    'coaxial': dict(kind='coax', r_inner=[0.0221, 0.025], r_outer=[0.0487, 0.055], r_b=0.07),
}


def _t(x):
    return toreal(x.t) if isinstance(x, Sym) else toreal(lift(x))


def rb_setup():
    import pygfunction as gt
    import ghedesigner.borehole_heat_exchangers as B
    import ghedesigner.utilities as U
    st = dict(calls=[], tags={}, hf={}, solves={}, flags={})

    def tag(obj):
        return st['tags'].setdefault(id(obj), len(st['tags']))

    def snap(self):
        self._Rd = (self.k_g, self.R_fp, getattr(self, 'R_ff', 0.0), self.k_s, tag(self))

    def init_single(self, pos, r_in, r_out, borehole, k_s, k_g, R_fp, J=2):
        self.pos, self.r_in, self.r_out, self.b, self.k_s, self.k_g, self.R_fp, self.J, self.nPipes = pos, r_in, r_out, borehole, k_s, k_g, R_fp, J, 1
        snap(self)

    def init_multi(self, pos, r_in, r_out, borehole, k_s, k_g, R_fp, nPipes, config='parallel', J=2):
        self.pos, self.r_in, self.r_out, self.b, self.k_s, self.k_g, self.R_fp, self.J, self.nPipes, self.config = pos, r_in, r_out, borehole, k_s, k_g, R_fp, J, nPipes, config
        snap(self)

    def init_coax(self, pos, r_in, r_out, borehole, k_s, k_g, R_ff, R_fp, J=2):
        self.pos, self.r_in, self.r_out, self.b, self.k_s, self.k_g, self.R_ff, self.R_fp, self.J, self.nPipes = pos, r_in, r_out, borehole, k_s, k_g, R_ff, R_fp, J, 1
        snap(self)

    def update(self, *R):
        self.R_fp = R[-1]
        if len(R) == 2:
            self.R_ff = R[0]
        snap(self)

    def effective(self, m_flow, cp):
        e = E()
        kg, rfp, rff, ks, tg = self._Rd
        val = Sym(RBK(_t(kg), _t(rfp), _t(rff), _t(ks), _t(m_flow), z3.IntVal(tg)))
        e.add(val.t > 0)
        for (kg2, rfp2, rff2, ks2, tg2, m2, val2) in st['calls']:
            if tg2 == tg:        # strictly decreasing in the grout conductivity, everything else equal
                same = z3.And(_t(rfp) == _t(rfp2), _t(rff) == _t(rff2), _t(ks) == _t(ks2), _t(m_flow) == _t(m2))
                e.add(z3.Implies(z3.And(same, _t(kg) < _t(kg2)), val.t > val2.t))
                e.add(z3.Implies(z3.And(same, _t(kg) > _t(kg2)), val.t < val2.t))
        st['calls'].append((kg, rfp, rff, ks, tg, m_flow, val))
        return val

    for cls, init in ((gt.pipes.SingleUTube, init_single), (gt.pipes.MultipleUTube, init_multi), (gt.pipes.Coaxial, init_coax)):
        shadow(cls, '__init__', init)
        shadow(cls, 'update_thermal_resistances', update)
        shadow(cls, '_initialize_stored_coefficients', lambda self: None)
        shadow(cls, 'effective_borehole_thermal_resistance', effective)

    real_hf = gt.pipes.convective_heat_transfer_coefficient_circular_pipe
    real_hfa = gt.pipes.convective_heat_transfer_coefficient_concentric_annulus

    def hf(m_flow, r, *a):
        if not isinstance(m_flow, Sym):        # concrete flow case: the real correlation, natively
            return float(real_hf(m_flow, r, *a))
        key = (_t(m_flow).sexpr(), float(r))
        if key not in st['hf']:
            h = Sym(E().fresh('h_f'))
            E().add(z3.And(h.t >= 10, h.t <= 100000))
            st['hf'][key] = h
        return st['hf'][key]

    def hf_annulus(m_flow, r_a, r_b, *a):
        if not isinstance(m_flow, Sym):
            x, y = real_hfa(m_flow, r_a, r_b, *a)
            return float(x), float(y)
        return hf(m_flow, r_a), hf(m_flow, r_b)
    shadow(gt.pipes, 'convective_heat_transfer_coefficient_circular_pipe', hf)
    shadow(gt.pipes, 'convective_heat_transfer_coefficient_concentric_annulus', hf_annulus)
    shadow(gt.pipes, 'conduction_thermal_resistance_circular_pipe', lambda r_in, r_out, k: math.log(r_out / r_in) / (2 * PI * k))

    def brentq_stub(f, lo, hi, xtol=2e-12, rtol=8.9e-16, maxiter=100, **kw):
        e = E()
        r = Sym(e.fresh('root'))
        e.add(z3.And(r.t >= _t(lo), r.t <= _t(hi)))
        fr = f(r)
        e.assume(fr == 0)
        if f.__name__ == 'objective_pipe_conductivity' and st['flags'].get('concrete_flow') and bool(r >= 0.01):
            # (below 0.01 W/m-K an absolute tolerance of 1e-6 on the conductivity no longer bounds the resistance to 0.1 % by contract,
            # although scipy converges far tighter in practice: the root is taken as exact there)
            # scipy's contract: the returned point (the last iterate evaluated) is within xtol + rtol |x| of a root - with the
            # tolerances solve_root actually passes; the objective is evaluated there last
            x = Sym(e.fresh('ret'))
            e.add(z3.And(x.t >= _t(lo), x.t <= _t(hi), x.t - r.t <= _t(xtol) + _t(rtol) * x.t, r.t - x.t <= _t(xtol) + _t(rtol) * x.t))
            f(x)
        else:
            x = r                  # grout objective: uninterpreted response, the tolerance cannot be propagated - exact root
        st['solves'][f.__name__]['brentq'] = True
        return x

    def sign_int(x):
        if isinstance(x, Sym):
            return 1 if x > 0 else -1
        return int(x)
    shadow(U, 'brentq', brentq_stub)
    shadow(U, 'int', sign_int)
    shadow(B, 'deepcopy', _shallow)
    shadow(B, 'RB_STATE', st)


def _shallow(x):
    import copy
    return copy.copy(x)


FLOWS = {'water_laminar': ('Water', 0.0, 0.05), 'water_turbulent': ('Water', 0.0, 0.5), 'pg30_low': ('PropyleneGlycol', 30.0, 0.2),
         'eg20_low': ('EthyleneGlycol', 20.0, 0.1)}


def rb_body(v, geom, flowcase=None):
    """returns dict of clause-name -> truth"""
    import ghedesigner.borehole_heat_exchangers as B
    import ghedesigner.utilities as U
    from ghedesigner.borehole import GHEBorehole
    from ghedesigner.enums import DoubleUTubeConnType
    from ghedesigner.media import Grout, Pipe, Soil
    g = GEOMS[geom]
    sym = v.e is not None
    if sym:
        for part in B.RB_STATE.values():      # the stub state belongs to one path: fresh coefficients (with their bounds) on every path
            part.clear()
        # with concrete convection coefficients brentq's tolerance contract is propagated (the 0.1 % claim is then decidable); with
        # abstract coefficients the root is taken as exact
        B.RB_STATE['flags']['concrete_flow'] = flowcase is not None
    k_g = v.real('k_g', 0.3, 3.5)
    k_s = v.real('k_s', 0.5, 5.0)
    k_p = v.real('k_p', 0.2, 1.0)
    m = v.real('m_flow', 0.1, 1.5)
    k1 = v.real('k1', 0.01, 7.0)
    k2 = v.real('k2', 0.01, 7.0)
    v.assume(k1 < k2)
    if flowcase is not None:
        from ghedesigner.media import GHEFluid
        fs, pct, vflow = FLOWS[flowcase]
        fluid = GHEFluid(fluid_str=fs, percent=pct)
        m = vflow / 1000.0 * fluid.rho          # concrete flow: the convection coefficients come from the real correlation
        bh = NS(H=100.0, D=2.0, r_b=g['r_b'], x=0.0, y=0.0) if sym else GHEBorehole(100.0, 2.0, g['r_b'], x=0.0, y=0.0)
    elif sym:
        fluid = NS(cp=4182.0, mu=1e-3, rho=998.0, k=0.6)
        bh = NS(H=100.0, D=2.0, r_b=g['r_b'], x=0.0, y=0.0)
    else:
        from ghedesigner.media import GHEFluid
        fluid = GHEFluid(fluid_str='Water', percent=0.0)
        bh = GHEBorehole(100.0, 2.0, g['r_b'], x=0.0, y=0.0)
    soil, grout = Soil(k_s, 2343493.0, 18.3), Grout(k_g, 3901000.0)
    if g['kind'] == 'du':
        pipe = Pipe(Pipe.place_pipes(g['s'], g['r_out'], 2), g['r_in'], g['r_out'], g['s'], 1e-6, k_p, 1542000.0)
        orig = B.MultipleUTube(m, fluid, bh, pipe, grout, soil, config=getattr(DoubleUTubeConnType, g['config']))
    else:
        k_po = v.real('k_p_outer', 0.2, 1.0)          # inner pipe k_p, outer pipe k_p_outer: independent
        pipe = Pipe((0, 0), list(g['r_inner']), list(g['r_outer']), 0, 1e-6, (k_p, k_po), 1542000.0)
        orig = B.CoaxialPipe(m, fluid, bh, pipe, grout, soil)
    rec = {}
    real_solve = U.solve_root

    def solve_spy(x, objective, lower=None, upper=None, **kw):
        r = rec.setdefault(objective.__name__, {})
        if sym:
            B.RB_STATE['solves'][objective.__name__] = r
        if objective.__name__ == 'objective_resistance':
            o1, o2 = objective(k1), objective(k2)
            r['monotone'] = o1 < o2
        lo_v, hi_v = objective(lower), objective(upper)
        v.assume((lo_v != 0) & (hi_v != 0))     # an objective exactly 0 at a bracket end divides by zero in solve_root: measure-zero float event, outside the claim
        r['bracketed'] = ((lo_v < 0) & (hi_v > 0)) | ((lo_v > 0) & (hi_v < 0))
        out = real_solve(x, objective, lower=lower, upper=upper, **kw)
        r['returned'] = out
        return out
    saved = B.solve_root
    B.solve_root = solve_spy
    try:
        single = orig.to_single()
    finally:
        B.solve_root = saved
    rb_orig = orig.calc_effective_borehole_resistance()
    rb_eq = single.calc_effective_borehole_resistance()
    rp, rg = rec['objective_pipe_conductivity'], rec['objective_resistance']
    if g['kind'] == 'du':
        vf, vp, rconv, rpipe = orig.u_tube_volumes()
    else:
        vf, vp, rconv, rpipe = orig.concentric_tube_volumes()
    target = rconv + rpipe
    # the same two resistances restated from the raw inputs (not through *_volumes): total inside surface n pi (2 r_in)^2 of the double-U
    # legs / the outer pipe's inner wall 2 pi r_out_in of the annulus; wall of all legs in parallel / wall of the OUTER coaxial pipe
    if g['kind'] == 'du':
        n_t = 4
        ind_conv = 1 / (orig.h_f * (n_t * PI * (g['r_in'] * 2.0) ** 2))
        ind_pipe = math.log(g['r_out'] / g['r_in']) / (n_t * 2 * PI * k_p)
    else:
        ind_conv = 1 / (orig.h_f_a_in * (PI * 2 * g['r_outer'][0]))
        ind_pipe = math.log(g['r_outer'][1] / g['r_outer'][0]) / (2 * PI * k_po)
    out = {}
    if sym:
        snap = single._Rd
        out['objective_strictly_increasing_in_k_grout'] = rg['monotone']
        out['stored_resistances_match_final_parameters'] = conj([snap[0] == single.grout.k, single.k_g == single.grout.k, snap[1] == single.R_fp])
        out['rb_matched_when_root_bracketed'] = implies(rg['bracketed'], rb_eq == rb_orig)
        out['grout_k_is_the_root'] = implies(rg['bracketed'], single.grout.k == rg['returned'])
        rel = lambda a, b: (a - b <= 1e-3 * b) & (b - a <= 1e-3 * b)      # noqa: E731 - "reproduces": within 0.1 %
        out['rfp_matched_when_root_bracketed'] = implies(rp['bracketed'], rel(single.R_fp, target))
        out['pipe_k_consistent'] = implies(rp['bracketed'], single.pipe.k == rp['returned'])
        out['rfp_matched'] = rel(single.R_fp, target)          # unconditional: claimed only where the convection coefficients are concrete
        out['targets_as_documented'] = conj([abs(rconv - ind_conv) <= 1e-9 * ind_conv, abs(rpipe - ind_pipe) <= 1e-9 * ind_pipe])
        out['same_flow_and_soil'] = conj([single.m_flow_borehole is m, single.soil is soil, single.grout is not grout, grout.k is k_g, orig.pipe.k is k_p or g['kind'] != 'du'])
    else:
        out['objective_strictly_increasing_in_k_grout'] = bool(rg['monotone'])
        # what the delta circuit would be if it were recomputed from the tube's final parameters
        before = rb_eq
        single.update_thermal_resistances(single.R_fp)
        after = single.calc_effective_borehole_resistance()
        out['stored_resistances_match_final_parameters'] = abs(after - before) <= 1e-9 * abs(before) and single.k_g == single.grout.k
        out['rb_matched_when_root_bracketed'] = (not rg['bracketed']) or abs(before - rb_orig) <= 1e-3 * rb_orig
        out['grout_k_is_the_root'] = (not rg['bracketed']) or single.grout.k == rg['returned']
        out['rfp_matched_when_root_bracketed'] = (not rp['bracketed']) or abs(single.R_fp - target) <= 1e-3 * target
        out['pipe_k_consistent'] = (not rp['bracketed']) or abs(single.pipe.k - rp['returned']) <= 1e-5 * max(1.0, rp['returned'])
        out['rfp_matched'] = abs(single.R_fp - target) <= 1e-3 * target
        out['targets_as_documented'] = abs(rconv - ind_conv) <= 1e-9 * ind_conv and abs(rpipe - ind_pipe) <= 1e-9 * ind_pipe
        out['same_flow_and_soil'] = single.m_flow_borehole == m and single.soil is soil and single.grout is not grout and grout.k == k_g
        out['_observed'] = dict(rb_original=rb_orig, rb_equivalent=before, rb_equivalent_recomputed=after, k_grout_equivalent=single.grout.k,
                                 objective_at_k1_k2='constant' if not rg['monotone'] else 'increasing')
    return out


GROUT = ('objective_strictly_increasing_in_k_grout', 'stored_resistances_match_final_parameters', 'rb_matched_when_root_bracketed', 'grout_k_is_the_root')
PIPE = ('rfp_matched_when_root_bracketed', 'pipe_k_consistent', 'same_flow_and_soil', 'targets_as_documented')
PIPE_FLOW = ('rfp_matched', 'pipe_k_consistent', 'targets_as_documented')


def make_rb_fn(geom, names, twin=False, flowcase=None):
    def fn(e):
        out = rb_body(V(e=e), geom, flowcase)
        if twin:
            return False
        bad = [n for n in names if out[n] is False]
        e.notes['clauses'] = list(names)
        return conj([out[n] for n in names])
    return fn


def make_rb_replay(geom, names, flowcase=None):
    def replay(model, notes):
        restore_shadows()
        out = rb_body(V(model=dict(model, m_flow=model.get('m_flow', 0.3), k_p_outer=model.get('k_p_outer', 0.4))), geom, flowcase)
        bad = [n for n in names if not out[n]]
        return bool(bad), dict(failed=bad, observed=out.get('_observed'), inputs=model)
    return replay


def units(tier, seed):
    F = ['borehole_heat_exchangers.py:MultipleUTube.u_tube_volumes', 'borehole_heat_exchangers.py:CoaxialPipe.concentric_tube_volumes',
         'borehole_heat_exchangers.py:GHEDesignerBoreholeWithMultiplePipes.equivalent_single_u_tube', 'media.py:Pipe.place_pipes',
         'borehole_heat_exchangers.py:SingleUTube.to_single']
    ST = ['SingleUTube constructor -> recorder (pygfunction pipe model not built)', 'solve_root -> no-op (the two resistance matches are not claimed)',
          'sqrt with its defining equation d*d == x; log -> uninterpreted with product rule', 'deepcopy -> namespace copy']
    AS = ['floats as reals', 'radii ordered so that the geometry exists (r_in < r_out; coaxial r_in_in < r_in_out < r_out_in < r_out_out)']
    F2 = ['borehole_heat_exchangers.py:MultipleUTube.__init__', 'borehole_heat_exchangers.py:MultipleUTube.to_single', 'borehole_heat_exchangers.py:CoaxialPipe.__init__',
          'borehole_heat_exchangers.py:CoaxialPipe.to_single', 'borehole_heat_exchangers.py:SingleUTube.__init__',
          'borehole_heat_exchangers.py:GHEDesignerBoreholeWithMultiplePipes.equivalent_single_u_tube',
          'borehole_heat_exchangers.py:GHEDesignerBoreholeWithMultiplePipes.match_effective_borehole_resistance',
          'borehole_heat_exchangers.py:*.calc_fluid_pipe_resistance', 'borehole_heat_exchangers.py:*.calc_effective_borehole_resistance', 'utilities.py:solve_root']
    ST2 = ['pygfunction pipe classes (third party) -> contract model: _Rd is recomputed by __init__ / update_thermal_resistances only, from the attributes '
           'of that moment; effective_borehole_thermal_resistance = uninterpreted RBK of those values, positive and strictly decreasing in k_g',
           'pygfunction convection correlations -> abstract positive coefficient per (flow, radius); pipe conduction -> ln(ro/ri)/(2 pi k) exactly',
           'scipy brentq -> returns a point of the bracket where the objective (evaluated there last) is 0', 'deepcopy -> shallow copy']
    AS2 = ['floats as reals', 'objective not exactly 0 at a bracket end',
           'that each bracket contains its root is a numerical fact about the correlations and is NOT claimed: the matches are asserted on the bracketed paths']
    return [
        Unit('double_u', make_fn(double_u_body), make_replay(double_u_body), setup, F, 'r_in in [5,30] mm, r_out in [6,40] mm, r_b in [40,150] mm, all reals (both fitting and non-fitting tubes)', AS, ST, max_seconds=600),
        Unit('coaxial', make_fn(coaxial_body), make_replay(coaxial_body), setup, F, 'four coaxial radii and r_b, all reals within mm-scale ranges', AS, ST, max_seconds=600),
        Unit('single_to_single', to_single_fn, None, setup, F[4:], 'any object'),
    ] + [
        Unit('%s_%s' % (pre, geom), make_rb_fn(geom, names), make_rb_replay(geom, names), rb_setup, F2,
             'geometry %s concrete; grout k in [0.3,3.5], soil k in [0.5,5], pipe k in [0.2,1], mass flow in [0.1,1.5] kg/s, trial conductivities '
             'k1 < k2 in [0.01,7], convection coefficients (abstract) in [10,1e5]: all reals' % geom, AS2, ST2, max_seconds=600)
        for geom in GEOMS for pre, names in (('grout_solve', GROUT), ('pipe_solve', PIPE))
    ] + [
        Unit('pipe_solve_%s_%s' % (geom, fc), make_rb_fn(geom, PIPE_FLOW, flowcase=fc), make_rb_replay(geom, PIPE_FLOW, flowcase=fc), rb_setup, F2,
             'geometry %s and flow case %s (fluid, %g L/s) concrete: convection coefficients from the real pygfunction correlations (computed natively); '
             'pipe k in [0.2,1], grout k, soil k all reals' % (geom, fc, FLOWS[fc][2]), AS2[:2], ST2, max_seconds=600)
        for geom in (GEOMS if tier == 'thorough' else ['double_u_parallel', 'double_u_series', 'coaxial'])
        for fc in (FLOWS if tier == 'thorough' else ['water_laminar', 'pg30_low', 'water_turbulent'])
    ] + [
        Unit('twin_reachability_rb', make_rb_fn('double_u_parallel', GROUT, twin=True), None, rb_setup, F2, 'assert False must be violated', expect_cex=True),
        Unit('twin_reachability', make_fn(double_u_body, twin=True), None, setup, F, 'assert False must be violated', expect_cex=True),
    ]
