"""C07 - hybrid loads retain each month's peaks with positive, bounded durations (decidable part)."""
from symx.runner import Unit

from . import c07_duration as DUR
from . import hybrid_common as HC

PROPERTY = 'C07'
EXPLANATION = ('Decidable part: in peak-retention months each non-zero peak yields exactly one pulse of the month\'s peak magnitude with '
               'the rejection-positive sign, of length equal to the reported duration, centred on noon of the peak day (the two pulses '
               'meeting at noon when both non-zero peaks fall on the same day); every other segment carries the month\'s average; months '
               'in between carry a single average segment; a month without load in a direction gets no pulse and a degenerate duration; '
               'monthly peak and peak day equal those of the raw profile (first occurrence); the 48 h window handed to the peak simulation '
               'is the day before and the day of the peak (31 December for 1 January). Duration units (dur_*): the real find_peak_durations, '
               'perform_current_month_simulation and simulate_hourly run on a raw profile with a symbolic peak or previous-day load and the '
               'concrete g-function of a real borehole; interp1d by contract; every reported duration is finite, positive and at most 48 h, '
               'and (where peak and average are concrete) is the time at which the constant (peak - average) response, linear between hours, '
               'equals the maximum of the peak-scaled two-day response recomputed from the raw profile (relative 1e-9).')
OUTSIDE = ('in the pulse units the duration is a stub value in (0,48]. The duration bound and the Cullin-Spitler equivalence are decided by the '
           'dur_* units for concrete short-time responses of real boreholes and one symbolic load magnitude per unit (catalogue of positions); '
           'the equivalence only where peak and average are concrete (monthly peak concrete, symbolic load in the previous month, no window '
           'load above the peak) - with a symbolic divisor z3 answers unknown. Other load shapes and boreholes are outside the claim.')
KEYS = ['pulses']


def units(tier, seed):
    us = HC.l1_units(KEYS, tier, None, pairs=False) + HC.l2_units(KEYS, tier, seed) + HC.window_units(tier) + DUR.units(tier)
    us.append(Unit('twin_reachability', HC.l1_fn(12, (2,), 'mixed', KEYS, twin=True), None, HC.setup, HC.FUNCS_L1,
                   'assert False must be violated', expect_cex=True))
    return us
