"""Shared harness for C01 / C02 / C05 / C12: one run of the real search + sizing code on symbolic
temperatures; each property module selects its own assertions from the dictionary returned."""
import z3

from symx import *  # noqa: F403
from symx.runner import Unit

from . import search_common as SC
from .search_common import conj, disj, implies

FUNCS = ['search_routines.py:Bisection1D.__init__', 'search_routines.py:Bisection1D.search',
         'search_routines.py:Bisection1D.calculate_excess', 'search_routines.py:Bisection1D.initialize_ghe',
         'search_routines.py:Bisection1D.retrieve_flow', 'search_routines.py:Bisection2D.__init__',
         'search_routines.py:BisectionZD.__init__', 'search_routines.py:BisectionZD.search_successive',
         'search_routines.py:RowWiseModifiedBisectionSearch.search',
         'ground_heat_exchangers.py:GHE.size', 'ground_heat_exchangers.py:BaseGHE.cost',
         'utilities.py:sign', 'utilities.py:check_bracket', 'utilities.py:solve_root', 'utilities.py:borehole_spacing',
         'manager.py:GHEManager.find_design']
STUBS = ['GHE.__init__ -> light constructor', 'GHE.simulate -> free symbolic (maxEFT, minEFT) per (field, height), deterministic',
         'GHE.compute_g_functions -> no-op', 'calc_g_func_for_multiple_lengths -> token',
         'scipy.optimize.brentq -> contract stub (x in bracket, |f(x_last)| <= 2e-4, |x_ret-x_last| <= xtol+rtol*hi)',
         'print -> recorded']
ASSUME = ['excess values are never exactly 0 (int(nan) otherwise; measure-zero)',
          'E is a function of (field, height) only: g at a stored height equals the stored curve (C11 node-exactness)',
          'EFT curves 1 K/m-Lipschitz in height between the last brentq evaluation and the returned root',
          'floats as reals']


def setup():
    SC.install()


# -- candidate domains (concrete geometry from the real generators; configuration dimension) -----------
def domain(kind, p):
    import ghedesigner.domains as D
    if kind == 'ns':
        return D.square_and_near_square(1, p['n'], 5.0)
    if kind == 'rect':
        return D.rectangular(p['L'], p['W'], p['bmin'], p['bmax'])
    if kind == '2d':
        return D.bi_rectangle_nested(p['L'], p['W'], p['bmin'], p['bmx'], p['bmy'])
    if kind == 'zd_zoned':
        return D.bi_rectangle_zoned_nested(p['L'], p['W'], p['bmin'], p['bmx'], p['bmy'])
    if kind == 'zd_poly':
        dom, desc = D.polygonal_land_constraint(p['bmin'], p['bmx'], p['bmy'], p['prop'], p.get('nogo'))
        return [list(d) for d in dom], [list(d) for d in desc]
    raise ValueError(kind)


def run_search(ctx, kind, p, cap, cont):
    import ghedesigner.manager as M
    import ghedesigner.search_routines as SR
    from ghedesigner.enums import FlowConfigType, TimestepType
    parts = SC.light_parts()
    sp = SC.sim_params(ctx, cap, cont)
    dom, desc = domain(kind, p)
    common = dict(v_flow=0.3, sim_params=sp, hourly_extraction_ground_loads=[0.0] * 8760,
                  method=TimestepType.HYBRID, flow_type=FlowConfigType.BOREHOLE, **parts)
    if kind in ('ns', 'rect'):
        ctor = lambda: SR.Bisection1D(dom, desc, **common)  # noqa: E731
    elif kind == '2d':
        ctor = lambda: SR.Bisection2D(dom, desc, **common)  # noqa: E731
    else:
        ctor = lambda: SR.BisectionZD(dom, desc, **common)  # noqa: E731
    mgr = M.GHEManager()
    for a in ('_fluid', '_grout', '_soil', '_pipe', '_borehole', '_simulation_parameters', '_ground_loads',
              '_geometric_constraints'):
        setattr(mgr, a, [1])
    mgr._design = SC.NS(find_design=ctor)
    mgr.find_design()
    return mgr, dom, desc, sp


def mono_assume(ctx, dom_flat):
    """monotone excess along the list (assumed only for the first-feasible clause)."""
    prev = None
    for f in dom_flat:
        i = ctx.field_idx(f)
        ex = ctx.excess(i, 'hi')
        if prev is not None:
            ctx.e.assume(prev >= ex)
        prev = ex


def body(ctx, cfg):
    """Runs the search; returns dict of named assertion values (SymBool / bool) or {'raised': exc}"""
    kind, p = cfg['kind'], cfg['p']
    cap = None
    if cfg.get('cap') == 'sym':
        cap = ctx.e.int('cap', 2, cfg['cap_hi']) if ctx.sym else int(ctx.model['cap'])
    elif isinstance(cfg.get('cap'), int):
        cap = cfg['cap']
    if cfg.get('cont') == 'sym':
        cont = ctx.e.boolean('cont') if ctx.sym else bool(ctx.model['cont'])
    else:
        cont = bool(cfg.get('cont', False))
    dom0, _ = domain(kind, p)
    flat = dom0 if kind in ('ns', 'rect') else [f for sub in dom0 for f in sub]
    for f in flat:
        ctx.field_idx(f)          # field numbers follow the candidate-list order in both modes
    if cfg.get('mono') and ctx.sym:
        if kind in ('ns', 'rect'):
            mono_assume(ctx, flat)
        else:
            for sub in dom0:
                mono_assume(ctx, sub)
    out = {}
    try:
        mgr, dom, desc, sp = run_search(ctx, kind, p, cap, cont)
    except ValueError as ex:
        out['raised'] = 'ValueError'
        out['raised_msg'] = str(ex)
        out['policy'] = policy_on_raise(ctx, cfg, cap, cont, str(ex))
        return out
    except Exception as ex:  # noqa: BLE001 - any other exception type escaping the run violates C02 (and only C02)
        return exc_outcome(out, ex)
    search = mgr._search
    i, h, hk = SC.final_state(ctx, search)
    unmet = any(('configuration selected' in m) for m in ctx.msgs)
    out['unmet'] = unmet
    out['sel'] = i
    out['hk'] = hk
    count_sel = len(ctx.field_list[i])
    # ---- C01: returned design within limits (tolerance 1e-3) unless the unmet escape was taken
    bound, is_root = SC.excess_bound_at(ctx, i, hk)
    out['c01'] = True if unmet else (bound <= SC.TOL)
    # ---- C02a: height within [min, max]
    out['c02_height'] = (h >= ctx.min_h) & (h <= ctx.max_h)
    # ---- C02b: cap (1D, 2D inner, ZD)
    out['c02_cap'] = True if cap is None else (cap >= count_sel)
    # ---- C02c: policy on the unmet-but-continued outcomes
    out['policy'] = policy_on_return(ctx, cfg, search, cap, cont, unmet, i, hk, dom)
    # ---- C05(i): not clamped => root; clamped only when the sign does not change
    e_lo = ctx.excess_if_known(i, 'lo')
    e_hi = ctx.excess_if_known(i, 'hi')
    structural = hk in ('lo', 'hi') or is_root
    c05i = [structural]
    if e_lo is not None and e_hi is not None:
        bracket = ((e_lo > 0) & (e_hi < 0)) | ((e_lo < 0) & (e_hi > 0))
        c05i.append(implies(bracket, is_root))
        if hk == 'lo':
            c05i.append(e_lo < 0)        # clamped at minimum: already feasible there
        if hk == 'hi' and not unmet:
            c05i.append(e_hi < 0)
    else:
        c05i.append(False)               # size() must have evaluated both ends
    out['c05_root'] = conj(c05i)
    # ---- C05(ii): drilling not larger than any evaluated feasible candidate at max height
    ct = search.calculated_temperatures
    dom_sel = search.coordinates_domain
    c05ii = []
    for j, v in ct.items():
        cj = len(dom_sel[j])
        c05ii.append(implies(v < 0, count_sel * h <= cj * ctx.max_h))
    out['c05_drilling'] = conj(c05ii)     # also on the unmet escapes: an evaluated feasible candidate must not be passed over
    # ---- C05(iii): predecessor evaluated and failing (near-square / rectangle / bi-rectangle)
    if kind in ('ns', 'rect', '2d') and not unmet:
        key = search.selection_key
        if key > 0:
            out['c05_pred'] = (key - 1 in ct) and (ct[key - 1] > 0)
        else:
            out['c05_pred'] = True
        if cfg.get('mono') and ctx.sym and kind in ('ns', 'rect'):
            firsts = []
            for j in range(key):
                firsts.append(ctx.excess(ctx.field_idx(dom_sel[j]), 'hi') > 0)
            out['c05_first'] = conj(firsts)
    # ---- C12: state consistency
    ghe = search.ghe
    out['c12_count'] = ghe.nbh == count_sel and len(ghe.gFunction.bore_locations) == count_sel
    tagged = ghe.sim_h
    if tagged is None:
        out['c12_eft_height'] = False
    else:
        out['c12_eft_height'] = (abs(tagged - h) <= SC.TOL) & (ghe.sim_field == i)
    rows = []
    for spec, t_ex, mx, mn in search.searchTracker:
        rows.append(t_ex == sym_max(mx - ctx.upper, ctx.lower - mn))
    out['c12_log'] = conj(rows)
    return out


def exc_outcome(out, ex):
    import traceback
    tb = traceback.extract_tb(ex.__traceback__)
    out['raised'] = type(ex).__name__
    out['raised_msg'] = str(ex)[:80]
    out['raised_where'] = ' <- '.join('%s:%d' % (f.filename.split('/')[-1], f.lineno) for f in tb[-3:][::-1])
    out['c02_exception_type'] = False
    return out


def allowed_indices(dom, cap):
    """indices of the candidates the cap allows (count < cap); cap comparisons were already decided on this path"""
    return [k for k, f in enumerate(dom) if cap is None or bool(len(f) < cap)]


def policy_on_raise(ctx, cfg, cap, cont, msg):
    """'Search failed.' is legitimate only when the user did not ask to continue and either the largest allowed
    candidate fails at maximum height or the smallest one over-satisfies at both heights."""
    if msg != 'Search failed.':
        return True   # other ValueErrors (generator refusals) are judged by the exception-type clause only
    kind, p = cfg['kind'], cfg['p']
    if kind not in ('ns', 'rect'):
        return True
    dom, _ = domain(kind, p)
    first = ctx.field_idx(dom[0])
    too_small = (ctx.excess(first, 'lo') < 0) & (ctx.excess(first, 'hi') < 0)
    last = allowed_indices(dom, cap)[-1]
    # "no candidate can meet the limits": the largest allowed one fails and so does every candidate that was evaluated
    evaluated_fail = [ctx.excess(i, hk) > 0 for (i, hk) in sorted(set(ctx.evals)) if hk == 'hi']   # evaluated by the code (ctx.vals also holds values that only assumptions created)
    too_large = conj([ctx.excess(ctx.field_idx(dom[last]), 'hi') > 0] + evaluated_fail)
    not_cont = ~cont if isinstance(cont, SymBool) else (not cont)
    return conj([not_cont, disj([too_small, too_large])])


def policy_on_return(ctx, cfg, search, cap, cont, unmet, i, hk, dom):
    kind = cfg['kind']
    if kind not in ('ns', 'rect'):
        return True
    msgs = ' '.join(ctx.msgs)
    h = search.ghe.bhe.b.H
    res = []
    if 'Smallest available configuration selected' in msgs:
        res.append(i == ctx.field_idx(dom[0]))
        res.append(cont if isinstance(cont, SymBool) else bool(cont))
        res.append(h == ctx.min_h)
    if 'Largest available configuration selected' in msgs:
        last = allowed_indices(dom, cap)[-1]
        res.append(len(ctx.field_list[i]) == len(dom[last]))
        res.append(cont if isinstance(cont, SymBool) else bool(cont))
        # at maximum height - for excess curves that do not get better with a shorter borehole (physical; stated)
        res.append(implies(ctx.excess(i, 'lo') >= ctx.excess(i, 'hi'), h == ctx.max_h))
        # legitimate only if no evaluated candidate meets the limits at maximum height
        res += [v > 0 for v in search.calculated_temperatures.values()]
    if not unmet:
        res.append(not any('optimal design requires' in m for m in ctx.msgs))
    return conj(res) if res else True


def make_fn(cfg, keys, twin=False):
    def fn(e):
        ctx = SC.SearchCtx(e=e)
        out = body(ctx, cfg)
        e.notes['outcome'] = {k: (v if isinstance(v, (bool, int, str)) else '<sym>') for k, v in out.items()}
        if twin:
            return False
        return conj([out[k] for k in keys if k in out])
    return fn


def make_replay(cfg, keys):
    def replay(model, notes):
        SC.install()
        try:
            ctx = SC.SearchCtx(model=model)
            try:
                out = body(ctx, cfg)
            except SC.ReplayDiverged as ex:
                return None, 'float replay diverged (%s): decided by the concolic re-run' % ex
            except Exception as ex:  # noqa: BLE001
                import traceback
                tb = traceback.extract_tb(ex.__traceback__)
                where = ['%s:%d %s' % (f.filename.split('/')[-1], f.lineno, f.name) for f in tb[-3:]]
                return True, dict(exception='%s: %s' % (type(ex).__name__, ex), where=where)
            if out.get('raised') == 'ReplayDiverged':
                return None, 'float replay reached a value the symbolic run never created (%s): decided by the concolic re-run' % out.get('raised_msg')
            bad = [k for k in keys if k in out and not bool(out[k])]
            info = dict(failed=bad, outcome={k: (v if isinstance(v, (bool, int, str, float)) else str(v)) for k, v in out.items()},
                        msgs=ctx.msgs[-4:], evaluations=ctx.evals[-12:])
            return bool(bad), info
        finally:
            from symx.runner import restore_shadows
            restore_shadows()
    return replay


def unit(name, cfg, keys, bounds, **kw):
    return Unit(name, make_fn(cfg, keys), make_replay(cfg, keys), setup, FUNCS, bounds, ASSUME, STUBS, params=cfg, **kw)


LOTS_RECT = [dict(L=30.0, W=20.0, bmin=5.0, bmax=10.0), dict(L=20.0, W=35.0, bmin=4.0, bmax=10.0),
             dict(L=50.0, W=50.0, bmin=6.0, bmax=12.5)]
LOTS_2D = [dict(L=20.0, W=12.0, bmin=4.0, bmx=10.0, bmy=6.0), dict(L=12.0, W=24.0, bmin=5.0, bmx=6.0, bmy=12.0)]
# the second and third lists are NOT ordered by borehole count, as real bi-zoned lists are (37 fields: ..., 23, 21, 30, 21, 22, ... - the bisection
# reaches the pair (index 29: 30 boreholes, index 30: 21 boreholes); the 24-field list has such pairs too but the bisection cannot evaluate both)
LOTS_ZD = [dict(L=20.0, W=12.0, bmin=5.0, bmx=10.0, bmy=6.0), dict(L=30.0, W=20.0, bmin=5.0, bmx=10.0, bmy=10.0), dict(L=25.0, W=15.0, bmin=5.0, bmx=10.0, bmy=8.0)]
POLY = [dict(bmin=6.0, bmx=12.0, bmy=8.0, prop=[[[0, 0], [24, 0], [24, 16], [0, 16]]], nogo=[[[8, 4], [16, 4], [16, 12], [8, 12]]]),
        dict(bmin=5.0, bmx=10.0, bmy=7.5, prop=[[[0, 0], [20, 0], [20, 10], [10, 10], [10, 20], [0, 20]]], nogo=[])]


def all_units(prop, keys, tier):
    us = []
    # 1D near-square: arbitrary sign patterns
    ns_any = [1, 2, 3, 5] if tier == 'quick' else [1, 2, 3, 4, 5]
    for n in ns_any:
        cfg = dict(kind='ns', p=dict(n=n), cap='sym', cap_hi=(n * (n + 1)) + 2, cont='sym')
        us.append(unit('ns_any_n%d' % n, cfg, keys, 'near-square list of %d fields, all sign patterns of the excess, every cap 2..%d, both policies, all height windows' % (2 * n, cfg['cap_hi'])))
    ns_mono = [8, 16] if tier == 'quick' else [8, 16, 24, 32]
    for n in ns_mono:
        cfg = dict(kind='ns', p=dict(n=n), cap=None, cont='sym', mono=True)
        us.append(unit('ns_mono_n%d' % n, cfg, keys, 'near-square list of %d fields, monotone excess, every threshold position, both policies' % (2 * n),
                       max_seconds=1500 if tier == 'thorough' else 600))
    if tier == 'thorough':
        cfg = dict(kind='ns', p=dict(n=12), cap='sym', cap_hi=160, cont='sym', mono=True)
        us.append(unit('ns_mono_cap_n12', cfg, keys, 'near-square 24 fields, monotone, every cap', max_seconds=1500))
    for k, lot in enumerate(LOTS_RECT if tier == 'thorough' else LOTS_RECT[:2]):
        cfg = dict(kind='rect', p=lot, cap='sym', cap_hi=200, cont='sym')
        us.append(unit('rect_any_%d' % k, cfg, keys, 'rectangle list for lot %s, all sign patterns, every cap, both policies' % lot, max_seconds=1200))
    for k, lot in enumerate(LOTS_2D if tier == 'thorough' else LOTS_2D[:1]):
        cfg = dict(kind='2d', p=lot, cap=None, cont='sym')
        us.append(unit('birect_any_%d' % k, cfg, keys, 'bi-rectangle nested lists for lot %s (Bisection2D), all sign patterns' % lot, max_seconds=1500))
    # the borehole cap in the nested searches (every list the search switches to must honour it)
    cfg = dict(kind='2d', p=LOTS_2D[0], cap='sym', cap_hi=40, cont='sym')
    us.append(unit('birect_cap_0', cfg, keys, 'bi-rectangle nested lists for lot %s (Bisection2D), all sign patterns, every cap 2..40, both policies' % LOTS_2D[0], max_seconds=1500))
    cfg = dict(kind='zd_zoned', p=LOTS_ZD[0], cap='sym', cap_hi=40, cont=False)
    us.append(unit('bizoned_cap_0', cfg, keys, 'bi-zoned list for lot %s (BisectionZD), all sign patterns, every cap 2..40' % LOTS_ZD[0], max_seconds=1500))
    for k, lot in enumerate(LOTS_ZD if tier == 'thorough' else LOTS_ZD[:2]):
        cfg = dict(kind='zd_zoned', p=lot, cap=None, cont=False)
        us.append(unit('bizoned_any_%d' % k, cfg, keys, 'bi-zoned list for lot %s (BisectionZD), all sign patterns' % lot, max_seconds=1500))
    for k, pl in enumerate(POLY[:1]):      # POLY[1] (L-shaped lot, two lists searched in succession) needs > 25 min for all sign patterns: not registered
        cfg = dict(kind='zd_poly', p=pl, cap=None, cont=False)
        us.append(unit('poly_any_%d' % k, cfg, keys, 'polygon-constrained nested lists (BisectionZD), all sign patterns', max_seconds=1500))
    cfg = dict(kind='ns', p=dict(n=2), cap=None, cont='sym')
    us.append(Unit('twin_reachability', make_fn(cfg, keys, twin=True), None, setup, FUNCS, 'assert False must be violated', expect_cex=True))
    return us


# ------------------------------------------------------------------------------------------------
# RowWise modified bisection search: spacings are concrete, fields are concrete grids whose size decreases
# with the target spacing (stub of field_optimization_*), temperatures symbolic.
RW_FUNCS = ['search_routines.py:RowWiseModifiedBisectionSearch.__init__', 'search_routines.py:RowWiseModifiedBisectionSearch.search',
            'search_routines.py:RowWiseModifiedBisectionSearch.calculate_excess', 'search_routines.py:RowWiseModifiedBisectionSearch.initialize_ghe',
            'search_routines.py:RowWiseModifiedBisectionSearch.retrieve_flow', 'ground_heat_exchangers.py:GHE.size',
            'ground_heat_exchangers.py:BaseGHE.cost', 'utilities.py:solve_root', 'manager.py:GHEManager.find_design']


def rw_setup():
    import numpy as np

    import ghedesigner.search_routines as SR
    from symx.runner import shadow
    SC.install()

    def grid(space, lot):
        # the field depends on the spacing only through the number of rows (as real RowWise fields do up to
        # a rigid stretch), so neighbouring target spacings share one candidate and one set of temperatures
        k = int(lot // space) + 1
        # ... and, within one row count, through a coarse bucket of the spacing (0.75 m): the bisection midpoints and the two or three
        # groups of the final double-check pass are distinct candidates with their own temperatures (with one field per row count the
        # search left its loop after the first midpoint on every path)
        b = lot / max(k - 1, 1) * (1.0 - 0.001 * int(space // 0.75))
        # sheared so that no two boreholes are equidistant from the first one (sorted() on (distance, row) pairs
        # would otherwise compare numpy rows and raise numpy's 'truth value is ambiguous' ValueError)
        return np.array([[i * b + 0.137 * j, j * b + 0.011 * i * i] for i in range(k) for j in range(k)])

    def fo_fr(space_start, rotate_step, prop_bound, ng_zones=None, rotate_start=None, rotate_stop=None, **kw):
        return [grid(space_start, prop_bound), 'S_%0.3f' % space_start]

    def fo_wp(p_space, space_start, rotate_step, prop_bound, ng_zones=None, rotate_start=None, rotate_stop=None, **kw):
        return [grid(space_start, prop_bound), 'P%0.1f_S%0.3f' % (p_space, space_start)]

    shadow(SR, 'field_optimization_fr', fo_fr)
    shadow(SR, 'field_optimization_wp_space_fr', fo_wp)
    shadow(SR, 'gen_shape', lambda pb, ng=None: (pb, ng))


def body_rw(ctx, cfg):
    import ghedesigner.manager as M
    import ghedesigner.search_routines as SR
    from ghedesigner.enums import FlowConfigType, TimestepType
    from ghedesigner.geometry import GeometricConstraintsRowWise
    parts = SC.light_parts()
    if cfg.get('cont') == 'sym':
        cont = ctx.e.boolean('cont') if ctx.sym else bool(ctx.model['cont'])
    else:
        cont = bool(cfg.get('cont', False))
    sp = SC.sim_params(ctx, None, cont)
    gc = GeometricConstraintsRowWise(cfg.get('pratio'), cfg['smin'], cfg['smax'], cfg['sstep'], -1.0, 0.0, 0.5, cfg['lot'], [])
    ctor = lambda: SR.RowWiseModifiedBisectionSearch(  # noqa: E731
        0.3, parts['borehole'], parts['bhe_type'], parts['fluid'], parts['pipe'], parts['grout'], parts['soil'], sp,
        [0.0] * 8760, gc, method=TimestepType.HYBRID, flow_type=FlowConfigType.BOREHOLE, max_iter=cfg['max_iter'])
    mgr = M.GHEManager()
    for a in ('_fluid', '_grout', '_soil', '_pipe', '_borehole', '_simulation_parameters', '_ground_loads',
              '_geometric_constraints'):
        setattr(mgr, a, [1])
    mgr._design = SC.NS(find_design=ctor)
    out = {}
    # the two end fields of the spacing range as the stub generator builds them (independent of the search): densest / sparsest
    dense_n = (int(cfg['lot'] // cfg['smin']) + 1) ** 2
    sparse_n = (int(cfg['lot'] // cfg['smax']) + 1) ** 2
    not_cont = ~cont if isinstance(cont, SymBool) else (not cont)
    try:
        mgr.find_design()
    except ValueError as ex:
        out['raised'] = 'ValueError'
        out['raised_msg'] = str(ex)[:60]
        if str(ex) == 'Search failed.':
            # legitimate only without the continue flag, and only if every candidate the search evaluated fails at maximum height
            fails = [ctx.excess(i, hk) > 0 for (i, hk) in sorted(set(ctx.evals)) if hk == 'hi']
            out['policy'] = conj([not_cont] + fails)
        return out
    except Exception as ex:  # noqa: BLE001
        return exc_outcome(out, ex)
    search = mgr._search
    i, h, hk = SC.final_state(ctx, search)
    unmet = any(('configuration selected' in m) for m in ctx.msgs)
    out.update(unmet=unmet, sel=i, hk=hk)
    msgs = ' '.join(ctx.msgs)
    pol = []
    if 'Largest available configuration selected' in msgs:
        # the densest field (minimum spacing), with the continue flag, and only if no evaluated candidate meets the limits
        pol += [len(ctx.field_list[i]) == dense_n, cont if isinstance(cont, SymBool) else bool(cont)]
        pol += [ctx.excess(j, hk2) > 0 for (j, hk2) in sorted(set(ctx.evals)) if hk2 == 'hi']
    if not unmet:
        pol.append(not any('optimal design requires more' in m for m in ctx.msgs))
    out['policy'] = conj(pol) if pol else True
    bound, is_root = SC.excess_bound_at(ctx, i, hk)
    out['c01'] = True if unmet else (bound <= SC.TOL)
    out['c02_height'] = (h >= ctx.min_h) & (h <= ctx.max_h)
    e_lo = ctx.excess_if_known(i, 'lo')
    e_hi = ctx.excess_if_known(i, 'hi')
    c05i = [hk in ('lo', 'hi') or is_root]
    if e_lo is not None and e_hi is not None:
        bracket = ((e_lo > 0) & (e_hi < 0)) | ((e_lo < 0) & (e_hi > 0))
        c05i.append(implies(bracket, is_root))
        if hk == 'lo':
            c05i.append(e_lo < 0)
        if hk == 'hi' and not unmet:
            c05i.append(e_hi < 0)
    else:
        c05i.append(False)
    out['c05_root'] = conj(c05i)
    ghe = search.ghe
    count_sel = len(ctx.field_list[i])
    out['c12_count'] = ghe.nbh == count_sel and len(search.selected_coordinates) == count_sel
    out['c12_eft_height'] = False if ghe.sim_h is None else ((abs(ghe.sim_h - h) <= SC.TOL) & (ghe.sim_field == i))
    out['c12_log'] = conj([t_ex == sym_max(mx - ctx.upper, ctx.lower - mn) for _, t_ex, mx, mn in search.searchTracker])
    return out


def make_fn_rw(cfg, keys, twin=False):
    def fn(e):
        ctx = SC.SearchCtx(e=e)
        out = body_rw(ctx, cfg)
        e.notes['outcome'] = {k: (v if isinstance(v, (bool, int, str)) else '<sym>') for k, v in out.items()}
        return False if twin else conj([out[k] for k in keys if k in out])
    return fn


def make_replay_rw(cfg, keys):
    def replay(model, notes):
        rw_setup()
        try:
            ctx = SC.SearchCtx(model=model)
            try:
                out = body_rw(ctx, cfg)
            except SC.ReplayDiverged as ex:
                return None, 'float replay diverged (%s): decided by the concolic re-run' % ex
            except Exception as ex:  # noqa: BLE001
                import traceback
                tb = traceback.extract_tb(ex.__traceback__)
                where = ['%s:%d %s' % (f.filename.split('/')[-1], f.lineno, f.name) for f in tb[-3:]]
                return True, dict(exception='%s: %s' % (type(ex).__name__, ex), where=where)
            if out.get('raised') == 'ReplayDiverged':
                return None, 'float replay reached a value the symbolic run never created (%s): decided by the concolic re-run' % out.get('raised_msg')
            bad = [k for k in keys if k in out and not bool(out[k])]
            return bool(bad), dict(failed=bad, outcome={k: (v if isinstance(v, (bool, int, str, float)) else str(v)) for k, v in out.items()},
                                   msgs=[m[:60] for m in ctx.msgs[-4:]], evaluations=ctx.evals[-12:])
        finally:
            from symx.runner import restore_shadows
            restore_shadows()
    return replay


def rowwise_units(keys, tier):
    cfgs = [dict(name='rw_a', lot=40.0, smin=8.0, smax=20.0, sstep=0.1, max_iter=2, pratio=None, cont='sym'),
            dict(name='rw_b', lot=30.0, smin=6.0, smax=15.0, sstep=1.5, max_iter=2, pratio=0.8, cont='sym')]
    if tier == 'thorough':
        cfgs.append(dict(name='rw_c', lot=40.0, smin=5.0, smax=20.0, sstep=1.0, max_iter=3, pratio=None, cont='sym'))
    us = []
    for c in cfgs:
        us.append(Unit(c['name'], make_fn_rw(c, keys), make_replay_rw(c, keys), rw_setup, RW_FUNCS,
                       'RowWise search: lot %gx%g, spacings %g..%g step %g, max_iter %d, perimeter %s; all sign patterns of the excess, all height windows, both policies'
                       % (c['lot'], c['lot'], c['smin'], c['smax'], c['sstep'], c['max_iter'], c['pratio']),
                       ASSUME, STUBS + ['field_optimization_* -> concrete square grid, floor(L/s)+1 per side'], params=c, max_seconds=1500))
    return us


# -- the limits the searches work with are the ones the caller asked for ---------------------------------------------------------
def limits_setup():
    import ghedesigner.simulation as SIM
    from symx import sym_float, sym_int
    from symx.runner import shadow
    from . import c17
    c17.setup()
    shadow(SIM, 'int', sym_int)
    shadow(SIM, 'float', sym_float)


def limits_fn(geo, cap, cont):
    """manager -> SimulationParameters -> design class -> search class: the temperature limits, the height window, the borehole cap and
    the continue flag given to set_simulation_parameters are the ones the search object is constructed with (real setters, real
    SimulationParameters and Design* constructors; candidate generators and search classes are recorders), and BaseGHE.cost measures
    the excess against exactly those limits.  Pattern A (the searches on abstract temperatures) takes the limits from this object."""
    def fn(e):
        from types import SimpleNamespace as NS

        import ghedesigner.design as DS
        import ghedesigner.ground_heat_exchangers as G
        import ghedesigner.manager as M
        from ghedesigner.simulation import SimulationParameters
        from symx import Sym, sym_max
        from symx.runner import shadow

        from . import c17
        v = c17.V(e=e)
        m = c17.configure(M, v, geo, 'SINGLEUTUBE', dict(cap=cap, cont=cont))
        got = {}

        def recorder(name):
            def ctor(*a, **k):
                sps = [x for x in list(a) + list(k.values()) if isinstance(x, SimulationParameters)]
                got['sp'] = sps[0] if len(sps) == 1 else None
                return NS()
            return ctor
        for name in ('Bisection1D', 'Bisection2D', 'BisectionZD', 'RowWiseModifiedBisectionSearch'):
            shadow(DS, name, recorder(name))
        m._design.find_design()
        sp = got.get('sp')
        if sp is None:
            return False
        inp = e.inputs

        def same(x, name):
            return x == Sym(inp[name])          # semantic equality, decided by the solver (a value-preserving rewrite is not a violation)
        cs = [same(sp.max_EFT_allowable, 'max_eft'), same(sp.min_EFT_allowable, 'min_eft'), same(sp.max_height, 'max_h'), same(sp.min_height, 'min_h'),
              sp.continue_if_design_unmet is bool(cont), (same(sp.max_boreholes, 'cap') if cap else sp.max_boreholes is None),
              sp.start_month == 1, same(sp.end_month, 'months')]
        ghe = G.BaseGHE.__new__(G.BaseGHE)
        ghe.sim_params = sp
        mx, mn = e.real('eft_max', -50, 150), e.real('eft_min', -50, 150)
        shadow(G, 'max', sym_max)
        up, lo = Sym(inp['max_eft']), Sym(inp['min_eft'])
        cs.append(ghe.cost(mx, mn) == sym_max(mx - up, lo - mn))
        return conj(cs)
    return fn


def limits_units(tier):
    from symx.runner import Unit
    us = []
    geos = ('NEARSQUARE', 'RECTANGLE', 'BIRECTANGLE', 'BIZONEDRECTANGLE', 'BIRECTANGLECONSTRAINED', 'ROWWISE')
    for k, geo in enumerate(geos):
        for cap, cont in ([(True, True), (False, False)] if tier == 'thorough' else [((k % 2) == 0, (k % 3) == 0)]):
            us.append(Unit('limits_chain_%s_cap%d_cont%d' % (geo, cap, cont), limits_fn(geo, cap, cont), None, limits_setup,
                           ['manager.py:GHEManager.set_simulation_parameters', 'simulation.py:SimulationParameters.__init__', 'manager.py:GHEManager.set_design',
                            'design.py:Design*.__init__', 'design.py:Design*.find_design', 'ground_heat_exchangers.py:BaseGHE.cost'],
                           'design method %s; both temperature limits, the height window, the horizon%s and every other numeric setting symbolic' % (geo, ', the borehole cap' if cap else ''),
                           ['floats as reals'], ['candidate generators -> empty lists; search classes -> recorders of their constructor arguments']))
    return us
