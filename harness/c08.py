"""C08 - hybrid time axis covers the horizon exactly and is ordered."""
from symx import *  # noqa: F403
from symx.runner import Unit

from . import hybrid_common as HC

PROPERTY = 'C08'
EXPLANATION = ('HybridLoad.process_month_loads and the calendar helpers run symbolically (monthly table symbolic, L1; raw profile, L2); '
               'asserted: hour[0]=hour[1]=0, a breakpoint at the end of every calendar month (closed-form non-leap calendar oracle, '
               'independent of monthdays), last breakpoint = end of the horizon, months beyond 12 copy totals/peaks/durations/days of '
               'month ((i-1) mod 12)+1, and strictly increasing breakpoints under the premise that the reported pulse windows lie '
               'strictly inside their month and do not overlap. The calendar helpers are checked for a symbolic month index 1..360.')
OUTSIDE = 'multi-year explicit load files (len(years) > 1); leap years.'
KEYS = ['axis', 'order']


def _cal_setup():
    import ghedesigner.ground_loads as GL
    from symx.runner import shadow
    shadow(GL, 'range', sym_range)


def cal_prop(e):
    import ghedesigner.ground_loads as GL
    i = e.int('i', 1, 360)
    ii = i.__index__()        # forks over the 360 month indices (range() needs a concrete trip count)
    return _cal_check(ii)


def _cal_check(ii):
    import ghedesigner.ground_loads as GL
    ok = GL.last_month_hour(ii, [2019]) == HC.month_end(ii)
    ok = ok and GL.first_month_hour(ii, [2019]) == HC.month_start(ii) + 1
    ok = ok and GL.monthdays(ii, 2019) == HC.DIM[(ii - 1) % 12 + 1]
    return ok


def cal_replay(model, notes):
    ii = int(model['i'])
    return not _cal_check(ii), dict(i=ii)


def units(tier, seed):
    us = HC.l1_units(KEYS, tier, None, variant_list=('mixed', 'zero') if tier == 'thorough' else ('mixed',))
    us += HC.l2_units(['axis'], tier, seed)[:: (1 if tier == 'thorough' else 3)]
    us.append(Unit('calendar_helpers', cal_prop, cal_replay, _cal_setup,
                   ['ground_loads.py:monthdays', 'ground_loads.py:first_month_hour', 'ground_loads.py:last_month_hour'],
                   'month index: every Int in 1..360 (forked)', max_seconds=900))
    us.append(Unit('twin_reachability', HC.l1_fn(12, (2,), 'mixed', KEYS, twin=True), None, HC.setup, HC.FUNCS_L1,
                   'assert False must be violated', expect_cex=True))
    return us
