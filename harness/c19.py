"""C19 - output tables label time correctly and echo inputs and selected field."""
import datetime
from types import SimpleNamespace as NS

import z3

from symx import *  # noqa: F403
from symx.runner import Unit, shadow

PROPERTY = 'C19'
EXPLANATION = ('OutputManager.ghe_time_convert / hours_to_month run on a symbolic hour index / symbolic elapsed time; '
               'the row builders run on symbolic loads, coordinates and g-function arrays.')
OUTSIDE = 'text formatting of the CSV files; that the g-function time axis is increasing is C11.'

DIM = [31, 28, 31, 30, 31, 30, 31, 31, 30, 31, 30, 31]
CUM = [0]
for _d in DIM:
    CUM.append(CUM[-1] + 24 * _d)


def _setup():
    import ghedesigner.output as O
    shadow(O, 'floor', sym_floor)
    shadow(O, 'float', sym_float)


# -- unit 1: (month, day, hour) of every hour of the year ---------------------------------------
def tc_prop(e):
    from ghedesigner.output import OutputManager
    h = e.int('h', 0, 8759)
    m, d, hr = OutputManager.ghe_time_convert(h)
    ht = h.t
    # oracle written independently in z3: month = unique k with CUM[k-1] <= h < CUM[k]
    mo = z3.IntVal(12)
    for k in range(11, 0, -1):
        mo = z3.If(ht < CUM[k], k, mo)
    start = z3.IntVal(0)
    for k in range(1, 12):
        start = z3.If(ht >= CUM[k], CUM[k], start)
    return SymBool(z3.And(lift(m) == mo, lift(d) == (ht - start) / 24 + 1, lift(hr) == (ht - start) % 24 + 1))


def tc_replay(model, notes):
    from ghedesigner.output import OutputManager
    h = int(model['h'])
    got = tuple(int(x) for x in OutputManager.ghe_time_convert(h))
    t = datetime.datetime(2019, 1, 1) + datetime.timedelta(hours=h)
    exp = (t.month, t.day, t.hour + 1)
    return got != exp, dict(hour=h, got=got, expected=exp)


# -- unit 2: hours -> fractional months ----------------------------------------------------------
def h2m_pair_prop(e):
    from ghedesigner.output import OutputManager
    a = e.real('a', 0, None)
    b = e.real('b', None, 30 * 8760)
    e.assume(a < b)
    fa = OutputManager.hours_to_month(a)
    fb = OutputManager.hours_to_month(b)
    # monotone (strictly) and Lipschitz both ways: months last between 672 and 744 hours
    return (fa < fb) & ((fb - fa) * 672 <= (b - a)) & ((fb - fa) * 744 >= (b - a))


def h2m_pair_replay(model, notes):
    from ghedesigner.output import OutputManager
    a, b = float(model['a']), float(model['b'])
    fa, fb = OutputManager.hours_to_month(a), OutputManager.hours_to_month(b)
    bad = not (fa < fb) or (fb - fa) * 672 > (b - a) * (1 + 1e-9) + 1e-9 or (fb - fa) * 744 < (b - a) * (1 - 1e-9) - 1e-9
    return bad, dict(a=a, b=b, fa=fa, fb=fb)


def _exact_month(hours):
    """independent oracle: exact rational fractional month of an elapsed hour count"""
    from fractions import Fraction
    hours = Fraction(hours)
    y = hours // 8760
    rest = hours - y * 8760
    if rest == 0:
        return y * 12
    for m in range(12):
        if rest <= CUM[m + 1]:
            return y * 12 + m + (rest - CUM[m]) / Fraction(24 * DIM[m])


def h2m_value_prop(e):
    """value: for t in month m (1-based) of year y: f(t) = 12y + (m-1) + (t - start)/len, ends are integers"""
    from ghedesigner.output import OutputManager
    y = e.int('y', 0, 29)
    t = e.real('t', 0, 8760)
    e.assume(t > 0)
    f = OutputManager.hours_to_month(y * 8760 + t)
    tt = t.t
    exp = None
    for m in range(11, -1, -1):
        v = z3.ToReal(y.t) * 12 + m + (tt - CUM[m]) / (24 * DIM[m])
        exp = v if exp is None else z3.If(tt <= CUM[m + 1], v, exp)
    return SymBool(lift(f) == exp)


def h2m_value_replay(model, notes):
    from ghedesigner.output import OutputManager
    y, t = int(model['y']), float(model['t'])
    got = OutputManager.hours_to_month(y * 8760 + t)
    exp = float(_exact_month(__import__('fractions').Fraction(y * 8760) + __import__('fractions').Fraction(t)))
    return abs(got - exp) > 1e-9 * max(1.0, abs(exp)), dict(y=y, t=t, got=got, expected=exp)


def h2m_ends_prop(e):
    from ghedesigner.output import OutputManager
    y = e.int('y', 0, 29)
    m = e.int('m', 1, 12)
    cum = z3.IntVal(CUM[12])
    for k in range(11, 0, -1):
        cum = z3.If(m.t == k, CUM[k], cum)
    f = OutputManager.hours_to_month(Sym(y.t * 8760 + cum))
    return f == y * 12 + m


def h2m_ends_replay(model, notes):
    from ghedesigner.output import OutputManager
    y, m = int(model['y']), int(model['m'])
    got = OutputManager.hours_to_month(y * 8760 + CUM[m])
    return got != y * 12 + m, dict(y=y, m=m, got=got, expected=y * 12 + m)


# -- unit 3: row builders -------------------------------------------------------------------------
N_LOADS = 8760


def rows_prop(e):
    from ghedesigner.output import OutputManager
    k = e.int('k', 0, N_LOADS - 1)   # symbolic position whose load value is symbolic
    v = e.real('v')
    kk = k.__index__()                # forks over every position (bounded by N_LOADS)
    return _rows_check(kk, v)


def _rows_check(kk, v, n=N_LOADS):
    from ghedesigner.output import OutputManager
    loads = [float(i % 97) for i in range(n)]
    loads[kk] = v
    design = NS(ghe=NS(hourly_extraction_ground_loads=loads))
    om = OutputManager.__new__(OutputManager)
    rows = om.get_hourly_loading_data(design)
    ok = len(rows) == n + 1 and rows[0] == ["Month", "Day", "Hour", "Time (Hours)", "Loading (W) (Extraction)"]
    if not ok:
        return False
    r = rows[kk + 1]
    t = datetime.datetime(2019, 1, 1) + datetime.timedelta(hours=kk)
    lab = (int(r[0]) == t.month) and (int(r[1]) == t.day) and (int(r[2]) == t.hour + 1) and (int(r[3]) == kk)
    if not lab:
        return False
    # neighbours keep their own (concrete) values: nothing shifted
    for j in (kk - 1, kk + 1):
        if 0 <= j < n and rows[j + 1][4] != float(j % 97):
            return False
    return r[4] == v


def rows_prop_sampled(positions):
    def prop(e):
        v = e.real('v')
        k = e.int('k', 0, len(positions) - 1)
        kk = positions[k.__index__()]
        e.notes['pos'] = kk
        return _rows_check(kk, v)
    return prop


def rows_after_run_prop(e):
    """the loads table echoes the hourly loads the caller supplied also after the exchanger has been simulated (hourly and hybrid, 24
    months on one year of loads): same number of rows, same values, calendar labels"""
    from ghedesigner.enums import TimestepType
    from ghedesigner.output import OutputManager

    from . import c13
    given = [float(i % 97) for i in range(N_LOADS)]
    loads = list(given)
    ghe = c13.mk_ghe(e, 'a', end_month=24, loads=loads)
    ghe.bhe.b.H = e.real('H', 20, 400)
    ghe.simulate(TimestepType.HOURLY)
    ghe.simulate(TimestepType.HYBRID)
    om = OutputManager.__new__(OutputManager)
    rows = om.get_hourly_loading_data(NS(ghe=ghe))
    if len(rows) != N_LOADS + 1 or len(loads) != N_LOADS:
        return False
    for kk in (0, 1, 23, 24, 743, 744, 8735, 8759):
        t = datetime.datetime(2019, 1, 1) + datetime.timedelta(hours=kk)
        r = rows[kk + 1]
        if not (int(r[0]) == t.month and int(r[1]) == t.day and int(r[2]) == t.hour + 1 and int(r[3]) == kk and r[4] == given[kk]):
            return False
    return True


def rows_after_run_setup():
    from . import c13
    c13.ghe_setup()
    _setup()


def rows_replay(model, notes):
    kk = notes.get('pos', model.get('k'))
    v = float(model['v'])
    ok = _rows_check(int(kk), v)
    return not bool(ok), dict(position=kk, value=v)


def bore_prop(e):
    from ghedesigner.output import OutputManager
    n = 5
    xs = [e.real('x%d' % i) for i in range(n)]
    ys = [e.real('y%d' % i) for i in range(n)]
    coords = [(xs[i], ys[i]) for i in range(n)]
    design = NS(ghe=NS(gFunction=NS(bore_locations=coords)))
    rows = OutputManager.get_borehole_location_data(design)
    if len(rows) != n + 1 or rows[0] != ["x", "y"]:
        return False
    return all_of([(rows[i + 1][0] == xs[i]) & (rows[i + 1][1] == ys[i]) for i in range(n)] + [len(rows[i + 1]) == 2 for i in range(n)])


def bore_replay(model, notes):
    from ghedesigner.output import OutputManager
    n = 5
    coords = [(float(model['x%d' % i]), float(model['y%d' % i])) for i in range(n)]
    design = NS(ghe=NS(gFunction=NS(bore_locations=coords)))
    rows = OutputManager.get_borehole_location_data(design)
    bad = len(rows) != n + 1 or any(tuple(rows[i + 1]) != coords[i] for i in range(n))
    return bad, dict(rows=rows[:7], coords=coords)


def _gdesign(x, g, gb, H, B, calls):
    def grab(b_over_h):
        calls.append(b_over_h)
        return NS(x=list(x), y=list(g)), NS(x=list(x), y=list(gb))
    return NS(ghe=NS(bhe=NS(b=NS(H=H)), B_spacing=B, grab_g_function=grab))


def gtab_prop(e):
    from ghedesigner.output import OutputManager
    n = 6
    x = [e.real('t%d' % i) for i in range(n)]
    g = [e.real('g%d' % i) for i in range(n)]
    gb = [e.real('b%d' % i) for i in range(n)]
    H = e.real('H', 20, 400)
    B = e.real('B', 1, 30)
    calls = []
    design = _gdesign(x, g, gb, H, B, calls)
    rows = OutputManager.get_g_function_data(design)
    if len(rows) != n + 1 or len(calls) != 1:
        return False
    ok = [calls[0] * H == B]          # the curve requested is the one of the returned height
    for i in range(n):
        ok += [rows[i + 1][0] == x[i], rows[i + 1][1] == g[i], rows[i + 1][2] == gb[i]]
    return all_of(ok)


def gtab_replay(model, notes):
    from ghedesigner.output import OutputManager
    n = 6
    x = [float(model['t%d' % i]) for i in range(n)]
    g = [float(model['g%d' % i]) for i in range(n)]
    gb = [float(model['b%d' % i]) for i in range(n)]
    H, B = float(model['H']), float(model['B'])
    calls = []
    rows = OutputManager.get_g_function_data(_gdesign(x, g, gb, H, B, calls))
    bad = len(rows) != n + 1 or len(calls) != 1 or abs(calls[0] * H - B) > 1e-9 * B
    for i in range(n):
        if not bad and (rows[i + 1][0] != x[i] or rows[i + 1][1] != g[i] or rows[i + 1][2] != gb[i]):
            bad = True
    return bad, dict(rows=rows[:3], calls=calls)


def twin(e):
    from ghedesigner.output import OutputManager
    h = e.int('h', 0, 8759)
    OutputManager.ghe_time_convert(h)
    return False


def units(tier, seed):
    import random
    rnd = random.Random(seed)
    F = ['output.py:OutputManager.ghe_time_convert', 'output.py:OutputManager.hours_to_month',
         'output.py:OutputManager.get_hourly_loading_data', 'output.py:OutputManager.get_borehole_location_data',
         'output.py:OutputManager.get_g_function_data']
    us = [
        Unit('time_convert', tc_prop, tc_replay, _setup, F[:1], 'hour index: every Int in [0, 8760)'),
        Unit('hours_to_month_pairs', h2m_pair_prop, h2m_pair_replay, _setup, F[1:2],
             'elapsed hours a<b: all reals in [0, 30*8760]', max_seconds=900),
        Unit('hours_to_month_value', h2m_value_prop, h2m_value_replay, _setup, F[1:2],
             'year y in 0..29, t real in (0, 8760]'),
        Unit('hours_to_month_ends', h2m_ends_prop, h2m_ends_replay, _setup, F[1:2], 'y in 0..29, month 1..12'),
        Unit('bore_table', bore_prop, bore_replay, _setup, F[3:4], '5 boreholes, coordinates all reals'),
        Unit('g_table', gtab_prop, gtab_replay, _setup, F[4:5], '6-row curve, all reals; H in [20,400], B in [1,30]',
             stubs=['GHE.grab_g_function -> symbolic arrays (its correctness is C11)']),
        Unit('twin_reachability', twin, None, _setup, F[:1], 'assert False must be violated', expect_cex=True),
    ]
    if tier == 'thorough':
        for sh in range(16):
            pos = list(range(sh, 8760, 16))
            us.append(Unit('loads_table_shard%02d' % sh, rows_prop_sampled(pos), rows_replay, _setup, F[2:3],
                           'symbolic load value at every 16th position starting at %d (all 8760 positions over the 16 shards), value all reals' % sh,
                           max_seconds=3000, max_paths=10000))
    else:
        pos = sorted({0, 1, 23, 24, 743, 744, 1415, 1416, 8735, 8736, 8759} | {rnd.randrange(8760) for _ in range(13)})
        us.append(Unit('loads_table_sampled', rows_prop_sampled(pos), rows_replay, _setup, F[2:3],
                       'symbolic load value at %d positions (month/day/year boundaries + seeded), value all reals' % len(pos)))
    us.append(Unit('loads_table_after_hourly_run', rows_after_run_prop, None, rows_after_run_setup, F[2:3] + ['ground_heat_exchangers.py:GHE.simulate'],
                   'one year of loads, 24-month hourly and hybrid simulation on the exchanger first; height symbolic', stubs=['_simulate_detailed -> uninterpreted kernel']))
    return us
