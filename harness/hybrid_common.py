"""Shared harness for C06 / C07 / C08: the real HybridLoad code on symbolic monthly tables (L1) and on
raw 8760-hour profiles with symbolic magnitudes (L2)."""
from types import SimpleNamespace as NS

import z3

from symx import *  # noqa: F403
from symx.runner import Unit, restore_shadows, shadow

from .search_common import conj, disj, implies

DIM = [0, 31, 28, 31, 30, 31, 30, 31, 31, 30, 31, 30, 31]
CUM = [0]
for _d in DIM[1:]:
    CUM.append(CUM[-1] + 24 * _d)   # CUM[m] = hours up to the end of month m of year 1


def month_end(i):
    """closed-form oracle, independent of ground_loads.monthdays: last hour of simulated month i (1-based)"""
    y, m = divmod(i - 1, 12)
    return y * 8760 + CUM[m + 1]


class Arr(list):
    @property
    def size(self):
        return len(self)

    def __getitem__(self, k):
        r = list.__getitem__(self, k)
        return Arr(r) if isinstance(k, slice) else r

    def __mul__(self, o):
        if isinstance(o, (int,)) and not isinstance(o, bool) and False:
            return Arr(list.__mul__(self, o))
        return Arr([a * o for a in self])

    __rmul__ = __mul__

    def __sub__(self, o):
        if isinstance(o, list):
            return Arr([a - b for a, b in zip(self, o, strict=True)])
        return Arr([a - o for a in self])

    def __rsub__(self, o):
        return Arr([o - a for a in self])

    def __truediv__(self, o):
        if isinstance(o, list):
            return Arr([a / b for a, b in zip(self, o, strict=True)])
        return Arr([a / o for a in self])

    def dot(self, o):
        tot = 0
        for a, b in zip(self, o, strict=True):
            if is_sym(a) or is_sym(b) or (a != 0 and b != 0):
                tot = tot + a * b
        return tot

    def tolist(self):
        return list(self)


class FakeNP:
    ndarray = Arr

    @staticmethod
    def append(a, v):
        return Arr(list(a) + [v])

    @staticmethod
    def array(v):
        if isinstance(v, (list, tuple, range)):
            return Arr(list(v))
        return Arr([v])

    @staticmethod
    def hstack(v):
        return Arr(list(v))

    @staticmethod
    def log(v):
        import math
        return Arr([math.log(x) for x in v])


FUNCS_L1 = ['ground_loads.py:HybridLoad.process_month_loads', 'ground_loads.py:monthdays', 'ground_loads.py:first_month_hour',
            'ground_loads.py:last_month_hour']
FUNCS_L2 = FUNCS_L1 + ['ground_loads.py:HybridLoad.__init__', 'ground_loads.py:HybridLoad.split_heat_and_cool',
                       'ground_loads.py:HybridLoad.split_loads_by_month', 'ground_loads.py:HybridLoad.process_two_day_loads',
                       'ground_loads.py:HybridLoad.find_peak_durations']
STUBS = ['numpy append/array -> python list facade (values stay exact)', 'warnings.warn -> no-op',
         'HybridLoad.perform_current_month_simulation -> fresh duration d, 0 < d <= 48 (that bound is C07\'s unencodable clause, assumed here)']


def setup():
    import ghedesigner.ground_loads as GL
    from symx import engine
    engine.OPTIONS['div_mode'] = 'quot'
    shadow(GL, 'np', FakeNP)
    shadow(GL, 'warnings', NS(warn=lambda *a, **k: None))
    shadow(GL, 'floor', sym_floor)


# ---------------------------------------------------------------------------------------------------------
class Vals:
    """symbolic or replayed (float) named values"""

    def __init__(self, e=None, model=None):
        self.e, self.model = e, model

    @property
    def sym(self):
        return self.e is not None

    def real(self, name, lo=None, hi=None):
        if self.e is not None:
            return self.e.real(name, lo, hi)
        return float(self.model[name])

    def integer(self, name, lo=None, hi=None):
        if self.e is not None:
            return self.e.int(name, lo, hi)
        return int(self.model[name])

    def assume(self, c):
        if self.e is not None:
            self.e.assume(c)


BASE = dict(cl=300.0, hl=450.0, pcl=4.0, phl=6.5, dayc=9, dayh=17, dc=3.25, dh=5.5)   # concrete other months


def build_l1(v, n_months, sym_months, variant='mixed'):
    """HybridLoad object with the monthly table of year 1 filled: months in sym_months symbolic, the rest
    concrete (variant 'mixed' = typical non-zero values, 'zero' = no load)."""
    import ghedesigner.ground_loads as GL
    hl = GL.HybridLoad.__new__(GL.HybridLoad)
    hl.start_month, hl.end_month = 1, n_months
    hl.years = [2019]
    hl.peak_retain_start = hl.peak_retain_end = 12
    z = lambda x: [0] + [x] * 12  # noqa: E731
    if variant == 'zero':
        hl.monthly_cl, hl.monthly_hl, hl.monthly_peak_cl, hl.monthly_peak_hl = z(0.0), z(0.0), z(0.0), z(0.0)
        hl.monthly_peak_cl_day, hl.monthly_peak_hl_day = z(0), z(0)
        hl.monthly_peak_cl_duration, hl.monthly_peak_hl_duration = z(1e-6), z(1e-6)
    else:
        hl.monthly_cl, hl.monthly_hl = z(BASE['cl']), z(BASE['hl'])
        hl.monthly_peak_cl, hl.monthly_peak_hl = z(BASE['pcl']), z(BASE['phl'])
        hl.monthly_peak_cl_day, hl.monthly_peak_hl_day = z(BASE['dayc']), z(BASE['dayh'])
        hl.monthly_peak_cl_duration, hl.monthly_peak_hl_duration = z(BASE['dc']), z(BASE['dh'])
    sv = {}
    for m in sym_months:
        nd = DIM[m]
        s = {k: v.real('%s_%d' % (k, m)) for k in ('cl', 'hl', 'pcl', 'phl', 'dc', 'dh')}
        s['dayc'] = v.integer('dayc_%d' % m)
        s['dayh'] = v.integer('dayh_%d' % m)
        # what split_loads_by_month / find_peak_durations can produce (checked against the real functions in L2):
        v.assume((s['cl'] >= 0) & (s['hl'] >= 0) & (s['pcl'] >= 0) & (s['phl'] >= 0))
        v.assume((s['pcl'] <= s['cl']) & (s['phl'] <= s['hl']))
        v.assume((s['cl'] <= s['pcl'] * (24 * nd)) & (s['hl'] <= s['phl'] * (24 * nd)))
        v.assume((s['cl'] <= 1.0e6) & (s['hl'] <= 1.0e6))
        v.assume((s['dc'] > 0) & (s['dc'] <= 48) & (s['dh'] > 0) & (s['dh'] <= 48))
        v.assume((s['dayc'] >= 0) & (s['dayc'] < nd) & (s['dayh'] >= 0) & (s['dayh'] < nd))
        v.assume(implies(s['pcl'] == 0, (s['dayc'] == 0) & (s['cl'] == 0) & (s['dc'] == 1.0e-6)))
        v.assume(implies(s['phl'] == 0, (s['dayh'] == 0) & (s['hl'] == 0) & (s['dh'] == 1.0e-6)))
        hl.monthly_cl[m], hl.monthly_hl[m] = s['cl'], s['hl']
        hl.monthly_peak_cl[m], hl.monthly_peak_hl[m] = s['pcl'], s['phl']
        hl.monthly_peak_cl_day[m], hl.monthly_peak_hl_day[m] = s['dayc'], s['dayh']
        hl.monthly_peak_cl_duration[m], hl.monthly_peak_hl_duration[m] = s['dc'], s['dh']
        sv[m] = s
    hl.load = Arr([0])
    hl.hour = Arr([0])
    hl.step_func_load = Arr([0])
    return hl, sv


def is_conc(x):
    return not isinstance(x, (Sym, SymBool))


def month_end_indices(hl, n_months):
    """index of the (last) breakpoint equal to the end of each simulated month; None if missing"""
    idx = {}
    for i in range(1, n_months + 1):
        me = month_end(i)
        found = None
        for j in range(len(hl.hour)):
            h = hl.hour[j]
            if is_conc(h) and h == me:
                found = j
        idx[i] = found
    return idx


def energy_checks(hl, n_months, net_of_month, gross_of_month):
    """C06: per simulated month, sum load*dt between consecutive month-end breakpoints equals the month's net load"""
    idx = month_end_indices(hl, n_months)
    checks = []
    prev = 1   # entry 1 is the zero-load segment ending at hour 0
    for i in range(1, n_months + 1):
        j = idx[i]
        if j is None or j <= prev:
            checks.append(False)
            continue
        en = 0
        for k in range(prev + 1, j + 1):
            en = en + hl.load[k] * (hl.hour[k] - hl.hour[k - 1])
        net = net_of_month(i)
        tol = gross_of_month(i) * 1e-6 + 1e-9
        checks.append(abs(en - net) <= tol)
        prev = j
    return checks


def axis_checks(hl, n_months):
    """C08 (structure): starts at 0, a breakpoint at the end of every month, ends at the horizon"""
    idx = month_end_indices(hl, n_months)
    c = [len(hl.hour) == len(hl.load), is_conc(hl.hour[0]) and hl.hour[0] == 0, is_conc(hl.hour[1]) and hl.hour[1] == 0,
         is_conc(hl.load[0]) and hl.load[0] == 0, is_conc(hl.load[1]) and hl.load[1] == 0]
    c += [idx[i] is not None for i in range(1, n_months + 1)]
    last = hl.hour[len(hl.hour) - 1]
    c.append(is_conc(last) and last == month_end(n_months))
    order = [idx[i] for i in range(1, n_months + 1)]
    c.append(all(a is not None and b is not None and a < b for a, b in zip(order, order[1:])))
    return c


def increasing_checks(hl):
    return [hl.hour[j] > hl.hour[j - 1] for j in range(2, len(hl.hour))]


def replication_checks(hl, n_months):
    c = []
    for name in ('monthly_cl', 'monthly_hl', 'monthly_peak_cl', 'monthly_peak_hl', 'monthly_peak_cl_duration',
                 'monthly_peak_hl_duration', 'monthly_peak_cl_day', 'monthly_peak_hl_day'):
        arr = getattr(hl, name)
        c.append(len(arr) >= n_months + 1)
        for i in range(13, n_months + 1):
            if i < len(arr):
                c.append(arr[i] == arr[(i - 1) % 12 + 1])
    return c


def ipf(i, n_months):
    return i < 1 + 12 or i > n_months - 12


def month_start(i):
    return month_end(i - 1) if i > 1 else 0


def neg(c):
    return ~c if isinstance(c, SymBool) else (not c)


def month_segments(hl, n_months):
    idx = month_end_indices(hl, n_months)
    out = {}
    prev = 1
    for i in range(1, n_months + 1):
        j = idx[i]
        if j is None or j <= prev:
            return None
        out[i] = [(hl.hour[k - 1], hl.hour[k], hl.load[k]) for k in range(prev + 1, j + 1)]
        prev = j
    return out


def expected_windows(hl, i):
    """Oracle (independent of the code's helpers): pulse windows of simulated month i per the property statement.
    Centred on noon (13th hour boundary, i.e. month start + 1 + 24*day + 12) of the peak day; when both peaks are
    non-zero and fall on the same day the cooling pulse ends and the heating pulse starts at that instant."""
    pcl, phl = hl.monthly_peak_cl[i], hl.monthly_peak_hl[i]
    dc, dh = hl.monthly_peak_cl_duration[i], hl.monthly_peak_hl_duration[i]
    dayc, dayh = hl.monthly_peak_cl_day[i], hl.monthly_peak_hl_day[i]
    noon_c = month_start(i) + 1 + dayc * 24 + 12
    noon_h = month_start(i) + 1 + dayh * 24 + 12
    both_same = conj([dayc == dayh, pcl > 0, phl > 0])
    sc = ite(both_same, noon_c - dc, noon_c - dc / 2)
    sh = ite(both_same, noon_h, noon_h - dh / 2)
    return dict(pcl=pcl, phl=phl, dc=dc, dh=dh, sc=sc, ec=sc + dc, sh=sh, eh=sh + dh, both_same=both_same,
                cool_first=disj([dayc < dayh, both_same]))


def pulse_checks(hl, n_months, months):
    """C07 (decidable part), for the simulated months whose calendar month is in `months`."""
    segs_by_month = month_segments(hl, n_months)
    if segs_by_month is None:
        return [False]
    checks = []
    for i in range(1, n_months + 1):
        if (i - 1) % 12 + 1 not in months:
            continue
        segs = segs_by_month[i]
        w = expected_windows(hl, i)
        avg = segs[-1][2]
        if not ipf(i, n_months):
            mm = (i - 1) % 12 + 1
            checks.append(len(segs) == 1)
            checks.append(avg * (24 * DIM[mm]) == hl.monthly_cl[i] - hl.monthly_hl[i])
            continue
        inside = conj([w['sc'] > month_start(i), w['sh'] > month_start(i)])   # start not clamped at the horizon start
        has_c = disj([conj([ld == w['pcl'], a == w['sc'], b == w['ec']]) for a, b, ld in segs])
        has_h = disj([conj([ld == -w['phl'], a == w['sh'], b == w['eh']]) for a, b, ld in segs])
        checks.append(implies(conj([w['pcl'] > 0, inside]), has_c))
        checks.append(implies(conj([w['phl'] > 0, inside]), has_h))
        # no pulse in a direction without load; every other segment carries the month's average
        for a, b, ld in segs:
            checks.append(disj([ld == avg, conj([w['pcl'] > 0, ld == w['pcl']]), conj([w['phl'] > 0, ld == -w['phl']])]))
        n_pulse_c = sum_int([conj([ld == w['pcl'], neg(ld == avg)]) for a, b, ld in segs])
        n_pulse_h = sum_int([conj([ld == -w['phl'], neg(ld == avg)]) for a, b, ld in segs])
        checks.append(n_pulse_c <= 1)
        checks.append(n_pulse_h <= 1)
    return checks


def sum_int(conds):
    t = 0
    for c in conds:
        t = t + ite_int(c)
    return t


def order_premise(hl, n_months):
    """C08 premise: in every month the reported pulse windows lie strictly inside the month and do not overlap"""
    pre = []
    for i in range(1, n_months + 1):
        if not ipf(i, n_months):
            continue
        w = expected_windows(hl, i)
        ms, me = month_start(i), month_end(i)
        c_on, h_on = w['pcl'] > 0, w['phl'] > 0
        pre.append(implies(c_on, conj([w['sc'] > ms, w['ec'] < me])))
        pre.append(implies(h_on, conj([w['sh'] > ms, w['eh'] < me])))
        pre.append(implies(conj([c_on, h_on]), ite_bool(w['cool_first'], w['ec'] <= w['sh'], w['eh'] < w['sc'])))
        pre.append(implies(conj([c_on, h_on, neg(w['both_same'])]), ite_bool(w['cool_first'], w['ec'] < w['sh'], w['eh'] < w['sc'])))
    return pre


def ite_bool(c, a, b):
    return disj([conj([c, a]), conj([neg(c), b])])


def ite_int(c):
    if isinstance(c, SymBool):
        return Sym(z3.If(c.t, 1, 0))
    return 1 if c else 0


# ---------------------------------------------------------------------------------------------------------
def l1_checks(hl, n, months, keys, table):
    """table: year-1 monthly values captured before process_month_loads appended replicated months"""
    out = []
    def net(i):
        mm = (i - 1) % 12 + 1
        return table['cl'][mm] - table['hl'][mm]
    def gross(i):
        mm = (i - 1) % 12 + 1
        return table['cl'][mm] + table['hl'][mm]
    if 'energy' in keys:
        out += energy_checks(hl, n, net, gross)
        # total over the horizon = sum of the monthly nets (years x annual net for whole years)
    if 'axis' in keys:
        out += axis_checks(hl, n) + replication_checks(hl, n)
    if 'order' in keys:
        pre = order_premise(hl, n)
        inc = increasing_checks(hl)
        out.append(implies(conj(pre), conj(inc)))
    if 'pulses' in keys:
        out += pulse_checks(hl, n, months)
    return out


def capture_table(hl):
    return dict(cl=list(hl.monthly_cl), hl=list(hl.monthly_hl))


def l1_fn(n, months, variant, keys, extra_assume=None, twin=False):
    def fn(e):
        v = Vals(e=e)
        hl, sv = build_l1(v, n, months, variant)
        if extra_assume:
            extra_assume(v, hl, sv, n)
        table = capture_table(hl)
        hl.process_month_loads()
        if twin:
            return False
        return conj(l1_checks(hl, n, months, keys, table))
    return fn


def l1_replay(n, months, variant, keys):
    def replay(model, notes):
        restore_shadows()
        v = Vals(model=model)
        hl, sv = build_l1(v, n, months, variant)
        table = capture_table(hl)
        hl.process_month_loads()
        cs = l1_checks(hl, n, months, keys, table)
        bad = [k for k, c in enumerate(cs) if not bool(c)]
        info = dict(failed_checks=bad[:10], n_checks=len(cs), hour=[float(x) for x in list(hl.hour)[:14]],
                    load=[float(x) for x in list(hl.load)[:14]])
        return bool(bad), info
    return replay


def no_clamp(v, hl, sv, n):
    """C06/C08 premise placed on the inputs: no pulse starts before hour 0 (1 January, long duration), where the code
    clamps the start to 1e-6 - listed under outside-the-claim / known finding"""
    if 1 in sv:
        s = sv[1]
        v.assume(implies(s['dayc'] == 0, s['dc'] < 13))
        v.assume(implies(s['dayh'] == 0, s['dh'] < 26))


HORIZONS_Q = [12, 25, 240]
HORIZONS_T = list(range(1, 37)) + [47, 48, 59, 60, 119, 120, 239, 240, 359, 360]


def l1_units(prop_keys, tier, assume=None, variant_list=('mixed',), pairs=True):
    us = []
    hs = HORIZONS_Q if tier == 'quick' else HORIZONS_T
    for n in hs:
        for m in range(1, min(n, 12) + 1):
            for var in variant_list:
                us.append(Unit('L1_n%d_m%d_%s' % (n, m, var), l1_fn(n, (m,), var, prop_keys, assume), l1_replay(n, (m,), var, prop_keys), setup,
                               FUNCS_L1, 'horizon %d months; month %d of the monthly table fully symbolic (totals, peaks >= 0, peak days 0..days-1, '
                               'durations in (0,48]), other months concrete (%s)' % (n, m, var), stubs=STUBS[:2], max_seconds=600))
    pair_h = ([24] if tier == 'quick' else [13, 24, 36]) if pairs else []
    for n in pair_h:
        for m in (range(1, 13) if tier == 'thorough' else (12, 6)):
            m2 = m % 12 + 1
            if max(m, m2) > n:
                continue
            us.append(Unit('L1pair_n%d_m%d_%d' % (n, m, m2), l1_fn(n, (m, m2), 'zero', prop_keys, assume), l1_replay(n, (m, m2), 'zero', prop_keys),
                           setup, FUNCS_L1, 'horizon %d months; months %d and %d jointly symbolic, other months without load' % (n, m, m2),
                           stubs=STUBS[:2], max_seconds=900))
    return us


# ---------------------------------------------------------------------------------------------------------
# L2: the whole HybridLoad pipeline from a raw 8760-hour profile
def base_profile(kind):
    if kind == 'zero':
        return [0.0] * 8760
    if kind == 'heat':
        return [2000.0] * 8760
    if kind == 'cool':
        return [-1500.0] * 8760
    if kind == 'mixed':      # extraction at night, rejection in the afternoon, one stronger day per month
        out = []
        for h in range(8760):
            hod, doy = h % 24, h // 24
            strong = (doy % 30) == 10
            if 12 <= hod < 18:
                out.append(-2500.0 if (strong and hod == 15) else -1200.0)
            elif hod < 6:
                out.append(1800.0 if (strong and hod == 4) else 900.0)
            else:
                out.append(0.0)
        return out
    raise ValueError(kind)


class Scenario:
    def __init__(self, m, dayc, dayh, base, prev, hour_c=15, hour_h=4):
        self.m, self.dayc, self.dayh, self.base, self.prev = m, dayc, dayh, base, prev
        self.hc = CUM[m - 1] + 24 * (dayc or 0) + hour_c
        self.hh = CUM[m - 1] + 24 * (dayh or 0) + hour_h
        self.hp = (CUM[m - 1] - 24 + 10) % 8760

        self.hours = (hour_c, hour_h)

    def name(self):
        tag = '' if self.hours == (15, 4) else '_at%d_%d' % self.hours
        return 'm%d_c%s_h%s_%s_%s%s' % (self.m, self.dayc, self.dayh, self.base, self.prev, tag)


def l2_setup():
    setup()
    import ghedesigner.ground_loads as GL
    state = dict(n=0)

    def stub(self, two_day_hourly_peak_load, peak_load, avg_load, two_day_fluid_temps_pk, two_day_fluid_temps_nm):
        k = L2CTX['calls']
        L2CTX['calls'] += 1
        v = L2CTX['v']
        symbolic = isinstance(peak_load, Sym) or isinstance(avg_load, Sym) or any(isinstance(x, Sym) for x in two_day_hourly_peak_load)
        if not v.sym:
            d = float(v.model['dur%d' % k]) if ('dur%d' % k) in v.model else 3.0
        elif symbolic:
            d = v.real('dur%d' % k)
            v.assume((d > 0) & (d <= 48))
        else:
            d = 3.0
        L2CTX['durs'].append((k, d))
        return d, None, None
    shadow(GL.HybridLoad, 'perform_current_month_simulation', stub)


L2CTX = {}


def run_l2(v, sc, n_months):
    import ghedesigner.ground_loads as GL
    L2CTX.clear()
    L2CTX.update(calls=0, v=v, durs=[])
    raw = base_profile(sc.base)
    qc = v.real('qc', 0, 1.0e6)
    qh = v.real('qh', 0, 1.0e6)
    v.assume((qc > 0) & (qh > 0))
    sym_pos = {}
    if sc.dayc is not None:
        raw[sc.hc] = -qc
        sym_pos[sc.hc] = -qc
    if sc.dayh is not None:
        raw[sc.hh] = qh
        sym_pos[sc.hh] = qh
    if sc.prev in ('cool', 'heat'):
        qp = v.real('qp', 0, 1.0e6)
        v.assume(qp > 0)
        raw[sc.hp] = -qp if sc.prev == 'cool' else qp
        sym_pos[sc.hp] = raw[sc.hp]
    sp = NS(start_month=1, end_month=n_months)
    hl = GL.HybridLoad(list(raw), NS(), NS(), sp)
    return hl, raw, sym_pos


def month_net_gross(raw, mm):
    """independent oracle from the raw profile: net rejection (kWh) and gross (kWh) of calendar month mm"""
    net, gross = 0, 0
    for h in range(CUM[mm - 1], CUM[mm]):
        x = raw[h]
        net = net - x / 1000.0
        gross = gross + abs(x) / 1000.0
    return net, gross


def l2_checks(hl, raw, n, sc, keys):
    out = []
    nets = {mm: month_net_gross(raw, mm) for mm in range(1, 13)}
    if 'energy' in keys:
        out += energy_checks(hl, n, lambda i: nets[(i - 1) % 12 + 1][0], lambda i: nets[(i - 1) % 12 + 1][1])
    if 'axis' in keys:
        out += axis_checks(hl, n) + replication_checks(hl, n)
    if 'order' in keys:
        out.append(implies(conj(order_premise(hl, n)), conj(increasing_checks(hl))))
    if 'pulses' in keys:
        out += pulse_checks(hl, n, (sc.m, sc.m % 12 + 1))
        out += peak_oracle_checks(hl, raw, sc)
        out += duration_checks(hl)
    return out


def duration_checks(hl):
    """every reported duration positive and at most 48 h (given the stubbed simulation's contract), degenerate iff no load"""
    c = []
    for i in range(1, 13):
        for pk, du in ((hl.monthly_peak_cl[i], hl.monthly_peak_cl_duration[i]), (hl.monthly_peak_hl[i], hl.monthly_peak_hl_duration[i])):
            c.append((du > 0) & (du <= 48))
            c.append(implies(pk == 0, du <= 1.0e-6))
    return c


def peak_oracle_checks(hl, raw, sc):
    """monthly peak magnitude and peak day equal those of the raw profile (first occurrence of the maximum)"""
    c = []
    for mm in (sc.m,):
        for direction in ('cl', 'hl'):
            vals = []
            for h in range(CUM[mm - 1], CUM[mm]):
                x = raw[h]
                kw = (abs(x) / 1000.0 if direction == 'cl' else x / 1000.0)
                if isinstance(x, Sym):
                    neg_side = bool(x < 0)
                    vals.append((kw if (neg_side == (direction == 'cl')) else 0.0))
                else:
                    vals.append(kw if ((x < 0) == (direction == 'cl') and x != 0) else 0.0)
            peak = getattr(hl, 'monthly_peak_' + direction)[mm]
            day = getattr(hl, 'monthly_peak_%s_day' % direction)[mm]
            c.append(conj([peak >= x for x in vals if isinstance(x, Sym)] + [peak >= max(x for x in vals if not isinstance(x, Sym))]))
            # peak attained on the reported day, and not earlier in the month
            day_i = day if not isinstance(day, Sym) else None
            if day_i is None:
                c.append(False)
                continue
            on_day = vals[24 * int(day_i): 24 * int(day_i) + 24]
            before = vals[: 24 * int(day_i)]
            c.append(disj([x == peak for x in on_day]))
            c.append(conj([x < peak for x in before if isinstance(x, Sym)] + [all(x < peak if isinstance(peak, (int, float)) else True for x in before if not isinstance(x, Sym))]))
            if isinstance(peak, Sym):
                cm = max([x for x in before if not isinstance(x, Sym)] or [0.0])
                c.append(True if not before else (peak > cm))
    return c


def l2_fn(sc, n, keys, twin=False):
    def fn(e):
        v = Vals(e=e)
        hl, raw, sym_pos = run_l2(v, sc, n)
        e.notes['durations'] = [k for k, d in L2CTX['durs'] if isinstance(d, Sym)]
        if twin:
            return False
        # observables of the unit's month as named values: known-finding predicates are written over what the month looks like
        # (peak days, peaks, durations), however the raw profile produced it
        mm = sc.m
        for nm, val, kind in (('obs_dayc', hl.monthly_peak_cl_day[mm], 'int'), ('obs_dayh', hl.monthly_peak_hl_day[mm], 'int'),
                              ('obs_pcl', hl.monthly_peak_cl[mm], 'real'), ('obs_phl', hl.monthly_peak_hl[mm], 'real'),
                              ('obs_dc', hl.monthly_peak_cl_duration[mm], 'real'), ('obs_dh', hl.monthly_peak_hl_duration[mm], 'real')):
            o = e.int(nm) if kind == 'int' else e.real(nm)
            e.add(o.t == (lift(val) if kind == 'int' else toreal(lift(val))))
        return conj(l2_checks(hl, raw, n, sc, keys))
    return fn


def l2_replay(sc, n, keys):
    def replay(model, notes):
        restore_shadows()
        import ghedesigner.ground_loads as GL

        def stub(self, two_day_hourly_peak_load, peak_load, avg_load, two_day_fluid_temps_pk, two_day_fluid_temps_nm):
            k = L2CTX['calls']
            L2CTX['calls'] += 1
            d = float(model['dur%d' % k]) if ('dur%d' % k) in model else 3.0
            L2CTX['durs'].append((k, d))
            return d, None, None
        shadow(GL.HybridLoad, 'perform_current_month_simulation', stub)
        try:
            v = Vals(model=dict(model, qp=model.get('qp', 1.0)))
            hl, raw, _ = run_l2(v, sc, n)
            cs = l2_checks(hl, raw, n, sc, keys)
        finally:
            restore_shadows()
        bad = [k for k, c in enumerate(cs) if not bool(c)]
        mm = sc.m
        info = dict(failed_checks=bad[:10], n_checks=len(cs), month=mm,
                    cl=float(hl.monthly_cl[mm]), hl=float(hl.monthly_hl[mm]), pcl=float(hl.monthly_peak_cl[mm]), phl=float(hl.monthly_peak_hl[mm]),
                    dayc=int(hl.monthly_peak_cl_day[mm]), dayh=int(hl.monthly_peak_hl_day[mm]),
                    dc=float(hl.monthly_peak_cl_duration[mm]), dh=float(hl.monthly_peak_hl_duration[mm]))
        return bool(bad), info
    return replay


def scenarios(tier, seed):
    import random
    rnd = random.Random(seed)
    scs = []
    months = [1, 2, 12] if tier == 'quick' else list(range(1, 13))
    for m in months:
        last = DIM[m] - 1
        combos = [(0, 0), (0, 5), (5, 0), (last, last), (0, None), (None, 0)]
        if tier == 'thorough':
            combos += [(3, last), (4, None), (None, last), (1, 0), (0, 1), (last, 0), (None, 6), (rnd.randrange(DIM[m]), rnd.randrange(DIM[m]))]
        for dayc, dayh in combos:
            special = (dayc, dayh) in ((0, 0), (0, None), (None, 0))
            first_day = dayc == 0 or dayh == 0          # only then does the 48 h window reach into the previous month
            if tier == 'quick':
                bases = ('zero', 'mixed') if special else ('zero',)
            else:
                bases = ('zero', 'mixed', 'heat', 'cool') if special else ('zero', 'mixed')
            for base in bases:
                if tier == 'quick':
                    prevs = ('none',) if base != 'zero' else ('none', 'cool', 'heat')
                else:
                    prevs = ('none', 'cool', 'heat') if first_day else ('none',)
                for prev in prevs:
                    if dayc is None and dayh is None:
                        continue
                    scs.append(Scenario(m, dayc, dayh, base, prev))
                    if base == 'zero' and prev == 'none' and (tier == 'quick' or (dayc, dayh) in combos[:6]):
                        # peak in the last / first hour of its day (day index arithmetic at the day boundaries)
                        hv = [(23, 23), (0, 0)] if tier == 'quick' else [(23, 23), (0, 0), (23, 0), (0, 23), (12, 12)]
                        for hc, hh in hv:
                            if dayc is not None and dayh is not None and dayc == dayh and hc == hh:
                                hh = (hh + 5) % 24      # two symbolic loads cannot share one hour
                            scs.append(Scenario(m, dayc, dayh, base, prev, hour_c=hc, hour_h=hh))
    return scs


def l2_units(keys, tier, seed):
    us = []
    for sc in scenarios(tier, seed):
        for n in ((12,) if tier == 'quick' or sc.base != 'zero' or sc.prev != 'none' or sc.hours != (15, 4) else (12, 30)):
            us.append(Unit('L2_n%d_%s' % (n, sc.name()), l2_fn(sc, n, keys), l2_replay(sc, n, keys), l2_setup, FUNCS_L2,
                           'raw 8760-hour profile: base %s, symbolic rejection peak magnitude on day %s and extraction peak on day %s of month %d, '
                           'previous-month last-day load: %s; magnitudes all reals in (0, 1e6] W; horizon %d months'
                           % (sc.base, sc.dayc, sc.dayh, sc.m, sc.prev, n), stubs=STUBS, max_seconds=600))
    return us


# ---------------------------------------------------------------------------------------------------------
# C07: the 48 h window of process_two_day_loads, for a symbolic peak day (index arithmetic)
def window_prop(m):
    def fn(e):
        import ghedesigner.ground_loads as GL
        day = e.int('day', 0, DIM[m] - 1)
        d = day.__index__()     # slicing needs a concrete index: forks over the days of the month
        return _window_check(m, d)
    return fn


def _window_check(m, d):
    import ghedesigner.ground_loads as GL
    hl = GL.HybridLoad.__new__(GL.HybridLoad)
    rej = [float(h) for h in range(8760)]            # each hour carries its own index: the slice reveals its origin
    ext = [float(10000 + h) for h in range(8760)]
    hl.hourly_rejection_loads, hl.hourly_extraction_loads = rej, ext
    hl.days_in_month = [0] + DIM[1:]
    hl.monthly_peak_cl_day = [0] * 13
    hl.monthly_peak_hl_day = [0] * 13
    hl.monthly_peak_cl_day[m] = d
    hl.monthly_peak_hl_day[m] = DIM[m] - 1 - d
    hl.two_day_hourly_peak_cl_loads = [[0]]
    hl.two_day_hourly_peak_hl_loads = [[0]]
    hl.process_two_day_loads()
    wc = hl.two_day_hourly_peak_cl_loads[m]
    wh = hl.two_day_hourly_peak_hl_loads[m]
    start_c = CUM[m - 1] + 24 * (d - 1)
    exp_c = [float((start_c + k) % 8760) for k in range(48)]
    dh = DIM[m] - 1 - d
    start_h = CUM[m - 1] + 24 * (dh - 1)
    exp_h = [float(10000 + (start_h + k) % 8760) for k in range(48)]
    return list(wc) == exp_c and list(wh) == exp_h and len(hl.two_day_hourly_peak_cl_loads) == 13


def window_replay(m):
    def replay(model, notes):
        restore_shadows()
        d = int(model['day'])
        return not _window_check(m, d), dict(month=m, day=d)
    return replay


def window_units(tier):
    ms = [1, 2, 3, 12] if tier == 'quick' else list(range(1, 13))
    return [Unit('two_day_window_m%d' % m, window_prop(m), window_replay(m), setup, ['ground_loads.py:HybridLoad.process_two_day_loads'],
                 'peak day: every Int in 0..%d of month %d (forked); each hour of the year tagged with its index' % (DIM[m] - 1, m))
            for m in ms]
