"""C14 - RowWise on convex lots terminates, stays inside, keeps spacing, fills the lot."""
import math
import random
from fractions import Fraction

import z3

from symx import *  # noqa: F403
from symx.runner import Unit, restore_shadows, shadow

from .search_common import conj

PROPERTY = 'C14'
EXPLANATION = ('Pattern B: rowwise.gen_borehole_config / process_rows / distribute / remove_duplicates / field_optimization_fr and the '
               'shape.Shapes methods run with the polygon and the rotation concrete and the target spacing a symbolic real in [5,25] m. '
               'Coordinates depend on the spacing only through integer counts (d // s) and comparisons, so every atan/sin/cos/sqrt sees '
               'concrete arguments and runs natively in binary64 while the solver partitions the whole spacing range into regions of '
               'constant behaviour. On every region: the generator terminates within loop bounds derived from extent/s, every borehole '
               'lies inside or on the outline (exact rational oracle with 1e-6 slack), all pair distances are >= s (linear in s), an '
               'axis-aligned W x H lot at rotation 0 gets the (floor(W/s)+1) x (floor(H/s)+1) lattice, the rotation sweep returns the '
               'first tried rotation with the maximal count, and translating the lot translates the field rigidly.')
OUTSIDE = ('symbolic polygons and symbolic rotations (atan/sin/cos of symbolic arguments); spacings within 1e-9 relative of a partition '
           'boundary for the exact lattice-count clause (the code\'s own extent carries atan/sin round-off); perimeter spacing and no-go '
           'zones are covered for inside/outside only.')

LO, HI = 5.0, 25.0


class Spacing(Sym):
    """k * (the symbolic target spacing).  Floor-division of a concrete length by it enumerates the candidate counts and
    forks on linear constraints n*s <= a < (n+1)*s, so everything downstream of a count is concrete."""
    __slots__ = ('lo', 'hi')

    def __init__(self, t, lo=LO, hi=HI):
        Sym.__init__(self, t)
        self.lo, self.hi = lo, hi

    def __rfloordiv__(self, a):
        if isinstance(a, Sym):
            return Sym._floordiv(a, self)
        a = float(a)
        if a < 0:
            raise Unsupported('negative length // spacing')
        nmin, nmax = int(a // self.hi), int(a // self.lo) + 1
        for n in range(max(nmin - 1, 0), nmax + 1):
            c = SymBool(z3.And(lift(n) * self.t <= lift(a), lift(a) < lift(n + 1) * self.t))
            if bool(c):
                return float(n)
        raise PathAbort()

    def __rtruediv__(self, a):
        if isinstance(a, Sym):
            return Sym._truediv(a, self)
        return Ratio(float(a), self)

    def __mul__(self, o):
        if isinstance(o, (int, float)) and not isinstance(o, bool) and o > 0:
            return Spacing(z3.simplify(self.t * lift(float(o))), self.lo * o, self.hi * o)
        return Sym.__mul__(self, o)

    __rmul__ = __mul__

    def __pow__(self, o):
        if o == 2:
            return SqSpacing(z3.simplify(self.t * self.t))
        return Sym.__pow__(self, o)


class Ratio(Sym):
    """a / (k s) for a concrete length a: floor / ceil / int enumerate the candidate integers by linear constraints, like
    Spacing.__rfloordiv__ (robust to the count being written as int(a // s), floor(a / s) or ceil(a / s))"""
    __slots__ = ('a', 'sp')

    def __init__(self, a, sp):
        Sym.__init__(self, _divide_plain(a, sp))
        self.a, self.sp = a, sp

    def __floor__(self):
        return int(self.sp.__rfloordiv__(self.a)) if self.a >= 0 else -int(Ratio(-self.a, self.sp).__ceil__())

    def __ceil__(self):
        if self.a < 0:
            return -int(Ratio(-self.a, self.sp).__floor__())
        nmin, nmax = int(self.a // self.sp.hi), int(self.a // self.sp.lo) + 2
        for n in range(max(nmin - 1, 0), nmax + 1):
            c = SymBool(z3.And(lift(n - 1) * self.sp.t < lift(self.a), lift(self.a) <= lift(n) * self.sp.t))
            if bool(c):
                return n
        raise PathAbort()

    def __int__(self):
        return self.__floor__() if self.a >= 0 else self.__ceil__()

    def __trunc__(self):
        return self.__int__()


def _divide_plain(a, sp):
    return lift(a) / sp.t          # plain z3 division term: no defining constraint enters the path condition


class SqSpacing(Sym):
    """(k*s)^2.  Comparisons with a concrete number are answered from the bounds the path condition already implies on
    s when they are conclusive with a 1e-9 relative margin (interval evaluation of the monotone map s -> (k s)^2 on
    s > 0); everything else goes to the solver.  Used by remove_duplicates' n^2 pair tests."""
    __slots__ = ('k2',)

    def __init__(self, t):
        Sym.__init__(self, t)
        v = z3.simplify(z3.substitute(t, (z3.Real('s'), z3.RealVal(1))))
        self.k2 = float(numval(v)) if is_num(v) else None

    def _cmp(self, c, op):
        if isinstance(c, Sym) or self.k2 is None:
            return None
        b = E().bounds.get('s')
        if not b or b[0] is None or b[2] is None:
            return None
        lo, hi = self.k2 * float(b[0]) ** 2, self.k2 * float(b[2]) ** 2
        c = float(c)
        if op in ('>', '>='):
            if lo * (1 - 1e-9) > c:
                return SymBool(True)
            if hi * (1 + 1e-9) < c:
                return SymBool(False)
        else:
            if hi * (1 + 1e-9) < c:
                return SymBool(True)
            if lo * (1 - 1e-9) > c:
                return SymBool(False)
        return None

    def __gt__(self, o):
        r = self._cmp(o, '>')
        return r if r is not None else Sym.__gt__(self, o)

    def __ge__(self, o):
        r = self._cmp(o, '>=')
        return r if r is not None else Sym.__ge__(self, o)

    def __lt__(self, o):
        r = self._cmp(o, '<')
        return r if r is not None else Sym.__lt__(self, o)

    def __le__(self, o):
        r = self._cmp(o, '<=')
        return r if r is not None else Sym.__le__(self, o)


def _int(x):
    if isinstance(x, Ratio):
        return x.__int__()
    return sym_int(x) if isinstance(x, Sym) else int(x)


class LoopBound(Exception):
    pass


COUNT = {'n': 0, 'cap': 10 ** 9}


def _sqrt(x):
    """math.sqrt with an unwinding counter: distribute() and the row loops call it once per iteration"""
    COUNT['n'] += 1
    if COUNT['n'] > COUNT['cap']:
        raise LoopBound('unwinding bound %d exceeded (non-termination)' % COUNT['cap'])
    return math.sqrt(x)


def arm(poly, n_calls=1):
    ext = max(max(p[0] for p in poly) - min(p[0] for p in poly), max(p[1] for p in poly) - min(p[1] for p in poly)) * 1.5
    per_side = ext / (0.5 * LO) + 4
    COUNT['n'] = 0
    COUNT['cap'] = int(60 * per_side * per_side * n_calls + 5000)


def setup():
    import ghedesigner.rowwise as RW
    shadow(RW, 'int', _int)
    shadow(RW, 'sqrt', _sqrt)


def prefer_interior(e, margin=1e-7):
    """counterexamples are preferred in the interior of the spacing region (so that they survive conversion to binary64)"""
    s = z3.Real('s')
    e.prefer = [z3.substitute(c, (s, s * (1 + margin))) for c in e.pc] + [z3.substitute(c, (s, s * (1 - margin))) for c in e.pc]


def perp_extent(poly, rot):
    """extent of the polygon perpendicular to rows of direction (cos rot, sin rot)"""
    v = [-math.sin(rot) * x + math.cos(rot) * y for x, y in poly]
    return max(v) - min(v)


def declare_extent(e, poly, rot):
    """named constant for the known-finding predicate (a lot narrower than one row spacing)"""
    ext = perp_extent(poly, rot)
    e.real('perp_extent', ext, ext)


def thick(e, width=1e-9):
    """prune slivers: keep the path only if its spacing region contains two points `width` apart (relative).  Regions
    thinner than that arise where the code's own extent (after atan/sin round-off) and the oracle's differ by an ulp."""
    s = z3.Real('s')
    shifted = [z3.substitute(c, (s, s * (1 + width))) for c in e.pc]
    r, _ = e._check(*shifted)
    if r != z3.sat:
        e.stats['pruned'] += 1
        e.notes['sliver'] = True
        raise PathAbort()


# -- exact oracles ---------------------------------------------------------------------------------------------
def cross(a, b, c):
    return (b[0] - a[0]) * (c[1] - a[1]) - (b[1] - a[1]) * (c[0] - a[0])


def inside_convex(poly, p, slack=1e-6):
    """p inside or on the convex polygon (either orientation), with a distance slack; exact rationals"""
    P = (Fraction(p[0]), Fraction(p[1]))
    V = [(Fraction(x), Fraction(y)) for x, y in poly]
    n = len(V)
    area2 = sum(V[i][0] * V[(i + 1) % n][1] - V[(i + 1) % n][0] * V[i][1] for i in range(n))
    sgn = 1 if area2 > 0 else -1
    for i in range(n):
        a, b = V[i], V[(i + 1) % n]
        c = cross(a, b, P) * sgn
        ln = math.hypot(float(b[0] - a[0]), float(b[1] - a[1]))
        if float(c) < -slack * ln:
            return False
    return True


def min_pair(pts):
    sp = sorted(pts)
    best = None
    for i in range(len(sp)):
        for j in range(i + 1, len(sp)):
            dx = sp[j][0] - sp[i][0]
            if best is not None and dx > best:
                break
            d = math.hypot(dx, sp[j][1] - sp[i][1])
            if best is None or d < best:
                best = d
    return best


def _f(x):
    if isinstance(x, Sym):
        v = E().determined_value(x.t)
        if v is None:
            raise Unsupported('coordinate not determined by the path condition')
        return float(v)
    return float(x)


def basic_checks(poly, s, holes, nogo=(), spacing_clause=True):
    pts = [(_f(h[0]), _f(h[1])) for h in holes]
    cs = [len(pts) >= 1]
    cs.append(all(inside_convex(poly, p) for p in pts))
    for z in nogo:
        cs.append(not any(inside_convex(z, p, slack=-1e-6) for p in pts))     # strictly inside a no-go zone (beyond the slack)
    if spacing_clause:
        d = min_pair(pts)
        if d is not None:
            cs.append(s <= d * (1 + 1e-9) + 1e-9)
    return cs, pts


def lattice_checks(e, poly, s, pts):
    """axis-aligned W x H lot at rotation 0: exactly the (floor(W/s)+1) x (floor(H/s)+1) lattice of spacing-s rows"""
    xs = [p[0] for p in poly]
    ys = [p[1] for p in poly]
    x0, y0, W, H = min(xs), min(ys), max(xs) - min(xs), max(ys) - min(ys)
    nx = int(W // s) + 1          # the oracle's own counts (forks on the exact extents W, H)
    ny = int(H // s) + 1
    if e is not None:
        thick(e)                  # the code's extent carries atan/sin round-off: regions thinner than 1e-9 are outside the claim
    ok = len(pts) == nx * ny
    if ok:
        bx = W / (nx - 1) if nx > 1 else 0.0
        by = H / (ny - 1) if ny > 1 else 0.0
        if nx > 1 and ny > 1:
            grid = sorted((x0 + i * bx, y0 + j * by) for i in range(nx) for j in range(ny))
            ok = all(abs(a[0] - b[0]) < 1e-6 and abs(a[1] - b[1]) < 1e-6 for a, b in zip(sorted(pts), grid))
    return [ok]


def make_gen_fn(poly, rot, lattice=False, twin=False, nogo=None):
    def fn(e):
        import ghedesigner.rowwise as RW
        from ghedesigner.shape import Shapes
        hi = PERIM_HI if nogo else HI
        s = Spacing(z3.Real('s'), LO, hi) if nogo else Spacing(z3.Real('s'))
        e.inputs['s'] = s.t
        e.assume((s >= LO) & (s <= hi))
        declare_extent(e, poly, rot)
        arm(poly, 3 if nogo else 1)
        zones = [Shapes(z) for z in nogo] if nogo else None
        try:
            holes = RW.gen_borehole_config(Shapes(poly), s, s, no_go=zones, rotate=rot)
        except Unsupported:
            if not nogo:
                raise
            # a row whose chord through a no-go zone is shorter than the spacing: process_rows widens the two crossings by
            # (s - chord)/2, coordinates then depend continuously on s - outside pattern B, cut (counted as pruned path)
            e.notes['cut'] = 'no-go chord shorter than the spacing'
            raise PathAbort() from None
        e.notes['n'] = len(holes)
        if twin:
            return False
        cs, pts = basic_checks(poly, s, holes, nogo=nogo or ())
        if lattice:
            cs += lattice_checks(e, poly, s, pts)
        prefer_interior(e)
        return conj(cs)
    return fn


def make_gen_replay(poly, rot, lattice=False, nogo=None):
    def replay(model, notes):
        restore_shadows()
        import ghedesigner.rowwise as RW
        from ghedesigner.shape import Shapes
        s = float(model['s'])
        shadow(RW, 'sqrt', _sqrt)
        arm(poly, 3 if nogo else 1)
        zones = [Shapes(z) for z in nogo] if nogo else None
        try:
            holes = RW.gen_borehole_config(Shapes(poly), s, s, no_go=zones, rotate=rot)
        except Exception as ex:  # noqa: BLE001
            return True, dict(exception='%s: %s' % (type(ex).__name__, ex), s=s)
        finally:
            restore_shadows()
        cs, pts = basic_checks(poly, s, holes, nogo=nogo or ())
        if lattice:
            cs += lattice_checks(None, poly, s, pts)
        bad = [k for k, c in enumerate(cs) if not bool(c)]
        return bool(bad), dict(failed=bad, s=s, n=len(holes), polygon=poly, rotation=rot)
    return replay


# -- exact divisors: the spacing divides the lot sides exactly (the most common practical input) ----------------------------
EXACT = [(60.0, 30.0, [5.0, 6.0, 7.5, 10.0, 15.0]), (50.0, 25.0, [5.0, 6.25, 12.5, 25.0]), (48.0, 36.0, [6.0, 12.0, 8.0])]


def make_exact_fn(W, H, spacings):
    poly = [(0.0, 0.0), (W, 0.0), (W, H), (0.0, H)]

    def fn(e):
        import ghedesigner.rowwise as RW
        from ghedesigner.shape import Shapes
        k = e.int('k', 0, len(spacings) - 1).__index__()       # forks over the listed divisors
        sv = spacings[k]
        s = Spacing(z3.Real('s'))
        e.inputs['s'] = s.t
        e.assume(s == sv)
        arm(poly)
        holes = RW.gen_borehole_config(Shapes(poly), s, s, rotate=0.0)
        cs, pts = basic_checks(poly, s, holes)
        cs += lattice_exact(poly, sv, pts)
        return conj(cs)
    return fn


def lattice_exact(poly, sv, pts):
    W = max(p[0] for p in poly) - min(p[0] for p in poly)
    H = max(p[1] for p in poly) - min(p[1] for p in poly)
    nx, ny = int(W // sv) + 1, int(H // sv) + 1
    ok = len(pts) == nx * ny
    if ok:
        grid = sorted((i * W / (nx - 1), j * H / (ny - 1)) for i in range(nx) for j in range(ny))
        ok = all(abs(a[0] - b[0]) < 1e-6 and abs(a[1] - b[1]) < 1e-6 for a, b in zip(sorted(pts), grid))
    return [ok]


def make_exact_replay(W, H, spacings):
    poly = [(0.0, 0.0), (W, 0.0), (W, H), (0.0, H)]

    def replay(model, notes):
        restore_shadows()
        import ghedesigner.rowwise as RW
        from ghedesigner.shape import Shapes
        sv = spacings[int(model['k'])]
        try:
            holes = RW.gen_borehole_config(Shapes(poly), sv, sv, rotate=0.0)
        except Exception as ex:  # noqa: BLE001
            return True, dict(exception='%s: %s' % (type(ex).__name__, ex), s=sv)
        cs, pts = basic_checks(poly, sv, holes)
        cs += lattice_exact(poly, sv, pts)
        bad = [i for i, c in enumerate(cs) if not bool(c)]
        return bool(bad), dict(failed=bad, s=sv, n=len(holes), lot=(W, H))
    return replay


# -- translation: the field of the translated lot is the translated field -------------------------------------------
def make_shift_fn(poly, rot, shift):
    def fn(e):
        import ghedesigner.rowwise as RW
        from ghedesigner.shape import Shapes
        s = Spacing(z3.Real('s'))
        e.inputs['s'] = s.t
        e.assume((s >= LO) & (s <= HI))
        declare_extent(e, poly, rot)
        arm(poly, 2)
        a = RW.gen_borehole_config(Shapes(poly), s, s, rotate=rot)
        poly2 = [(x + shift[0], y + shift[1]) for x, y in poly]
        b = RW.gen_borehole_config(Shapes(poly2), s, s, rotate=rot)
        thick(e)
        prefer_interior(e)
        return shift_check(a, b, shift)
    return fn


def shift_check(a, b, shift):
    pa = sorted((round(float(x) + shift[0], 6), round(float(y) + shift[1], 6)) for x, y in a)
    pb = sorted((round(float(x), 6), round(float(y), 6)) for x, y in b)
    if len(pa) != len(pb):
        return False
    return all(abs(p[0] - q[0]) < 1e-5 and abs(p[1] - q[1]) < 1e-5 for p, q in zip(pa, pb))


def make_shift_replay(poly, rot, shift):
    def replay(model, notes):
        restore_shadows()
        import ghedesigner.rowwise as RW
        from ghedesigner.shape import Shapes
        s = float(model['s'])
        poly2 = [(x + shift[0], y + shift[1]) for x, y in poly]
        a = RW.gen_borehole_config(Shapes(poly), s, s, rotate=rot)
        b = RW.gen_borehole_config(Shapes(poly2), s, s, rotate=rot)
        return not shift_check(a, b, shift), dict(s=s, n_a=len(a), n_b=len(b), shift=shift)
    return replay


# -- the rotation sweep keeps the first rotation with the maximal count ------------------------------------------------
class Tok:
    def __init__(self, k, n, rot):
        self.k, self.n, self.rot = k, n, rot

    def tolist(self):
        return self


def make_opt_fn(which, start_deg, stop_deg, step_deg):
    def fn(e):
        import ghedesigner.rowwise as RW
        from ghedesigner.constants import DEG_TO_RAD
        toks = []
        start, stop = start_deg * DEG_TO_RAD, stop_deg * DEG_TO_RAD
        exp_rots = []
        r = start
        while r < stop:
            exp_rots.append(r)
            r += step_deg * DEG_TO_RAD
        counts = [e.int('c%d' % k, 0, 400) for k in range(len(exp_rots) + 2)]
        e.assume(any_of([c > 0 for c in counts[:len(exp_rots)]]))   # some rotation yields a borehole (an empty lot is degenerate)

        def fake_gen(field, y_space, x_space, no_go=None, rotate=0, **kw):
            k = len(toks)
            t = Tok(k, counts[min(k, len(counts) - 1)], rotate)
            toks.append(t)
            return t
        shadow(RW, 'gen_borehole_config', fake_gen)
        shadow(RW, 'two_space_gen_bhc', fake_gen)
        shadow(RW, 'len', lambda x: x.n if isinstance(x, Tok) else len(x))
        shadow(RW, 'remove_duplicates', lambda f, sp, disp=False: f)
        shadow(RW, 'np', type('N', (), {'array': staticmethod(lambda x: x)}))
        if which == 'fr':
            field, name = RW.field_optimization_fr(10.0, step_deg, None, rotate_start=start, rotate_stop=stop)
        else:
            field, name = RW.field_optimization_wp_space_fr(0.8, 10.0, step_deg, None, rotate_start=start, rotate_stop=stop)
        # the tried rotations: start, start+step, ... < stop
        cs = [len(toks) == len(exp_rots), len(toks) >= 1]
        cs += [abs(t.rot - r) < 1e-12 for t, r in zip(toks, exp_rots)]
        cs.append(isinstance(field, Tok))
        if isinstance(field, Tok):
            cs += [field.n >= t.n for t in toks]                                   # most boreholes
            cs += [t.n < field.n for t in toks[:field.k]]                          # the first such rotation
            cs.append(('rt%0.1f' % (field.rot / DEG_TO_RAD)) in name)
        return conj(cs)
    return fn


def make_opt_replay(which, start_deg, stop_deg, step_deg):
    def replay(model, notes):
        restore_shadows()
        import numpy as np

        import ghedesigner.rowwise as RW
        from ghedesigner.constants import DEG_TO_RAD
        calls = []

        def fake_gen(field, y_space, x_space, no_go=None, rotate=0, **kw):
            k = len(calls)
            c = int(model.get('c%d' % k, 0))
            calls.append((k, c, rotate))
            return np.array([[1000.0 * i, 1000.0 * k] for i in range(c)]).reshape(c, 2)
        shadow(RW, 'gen_borehole_config', fake_gen)
        shadow(RW, 'two_space_gen_bhc', fake_gen)
        try:
            start, stop = start_deg * DEG_TO_RAD, stop_deg * DEG_TO_RAD
            if which == 'fr':
                field, name = RW.field_optimization_fr(10.0, step_deg, None, rotate_start=start, rotate_stop=stop)
            else:
                field, name = RW.field_optimization_wp_space_fr(0.8, 10.0, step_deg, None, rotate_start=start, rotate_stop=stop)
        except Exception as ex:  # noqa: BLE001
            return True, dict(exception='%s: %s' % (type(ex).__name__, ex))
        finally:
            restore_shadows()
        best = max(c for _, c, _ in calls)
        first = [k for k, c, _ in calls if c == best][0]
        got_k = int(round(field[0][1] / 1000.0)) if len(field) else None
        bad = len(field) != best or got_k != first or ('rt%0.1f' % (calls[first][2] / DEG_TO_RAD)) not in name
        # the rotations that were tried: start, start + step, ... < stop (the requested window, nothing outside it)
        exp_rots = []
        r = start
        while r < stop:
            exp_rots.append(r)
            r += step_deg * DEG_TO_RAD
        tried = [rot for _, _, rot in calls]
        window_ok = len(tried) == len(exp_rots) and all(abs(a - b) < 1e-12 for a, b in zip(tried, exp_rots))
        return bad or not window_ok, dict(counts=[c for _, c, _ in calls], returned_rotation_index=got_k, expected_index=first, name=name,
                                          tried_rotations_deg=[round(x / DEG_TO_RAD, 6) for x in tried], requested_window_deg=[start_deg, stop_deg, step_deg])
    return replay


# -- perimeter spacing and no-go zones: inside the outline, outside the zones ----------------------------------------------
PERIM_HI = 12.0    # no-go zones of the catalogue are at least 15 m wide: the branch that moves intersections by (s - gap)/2
                   # (coordinates continuous in s, outside pattern B) is not entered for s <= 12


def make_perim_fn(poly, nogo, rot, ratio):
    def fn(e):
        import ghedesigner.rowwise as RW
        from ghedesigner.shape import Shapes
        s = Spacing(z3.Real('s'), LO, PERIM_HI)
        e.inputs['s'] = s.t
        e.assume((s >= LO) & (s <= PERIM_HI))
        arm(poly, 3)
        zones = [Shapes(z) for z in nogo] if nogo else None
        holes = RW.two_space_gen_bhc(Shapes(poly), s, s, no_go=zones, rotate=rot, p_space=s * ratio if ratio else None)
        cs, pts = basic_checks(poly, s, holes, nogo=nogo or (), spacing_clause=False)
        prefer_interior(e)
        return conj(cs)
    return fn


def make_perim_replay(poly, nogo, rot, ratio):
    def replay(model, notes):
        restore_shadows()
        import ghedesigner.rowwise as RW
        from ghedesigner.shape import Shapes
        s = float(model['s'])
        zones = [Shapes(z) for z in nogo] if nogo else None
        try:
            holes = RW.two_space_gen_bhc(Shapes(poly), s, s, no_go=zones, rotate=rot, p_space=s * ratio if ratio else None)
        except Exception as ex:  # noqa: BLE001
            return True, dict(exception='%s: %s' % (type(ex).__name__, ex), s=s)
        cs, pts = basic_checks(poly, s, holes, nogo=nogo or (), spacing_clause=False)
        bad = [k for k, c in enumerate(cs) if not bool(c)]
        return bool(bad), dict(failed=bad, s=s, n=len(holes))
    return replay


def convex_polygon(rnd, nv, size, touch_axes):
    """random convex polygon: points on an ellipse at sorted angles, optionally pushed to touch both axes"""
    ang = sorted(rnd.uniform(0, 2 * math.pi) for _ in range(nv))
    a, b = rnd.uniform(0.5, 1.0) * size / 2, rnd.uniform(0.5, 1.0) * size / 2
    pts = [(a * math.cos(t), b * math.sin(t)) for t in ang]
    mx, my = min(p[0] for p in pts), min(p[1] for p in pts)
    off = (0.0, 0.0) if touch_axes else (rnd.uniform(1, 20), rnd.uniform(1, 20))
    pts = [(round(p[0] - mx + off[0], 3), round(p[1] - my + off[1], 3)) for p in pts]
    if rnd.random() < 0.5:
        pts.reverse()
    return pts


POLYS = {
    'rect60x40': [(10.0, 10.0), (70.0, 10.0), (70.0, 50.0), (10.0, 50.0)],
    'rect_origin': [(0.0, 0.0), (50.0, 0.0), (50.0, 30.0), (0.0, 30.0)],
    'rect_cw': [(5.0, 5.0), (5.0, 45.0), (55.0, 45.0), (55.0, 5.0)],
    'tri': [(5.0, 5.0), (65.0, 10.0), (30.0, 55.0)],
    'tri_axes': [(0.0, 20.0), (40.0, 0.0), (50.0, 45.0)],
    'strip60x20': [(0.0, 0.0), (60.0, 0.0), (60.0, 20.0), (0.0, 20.0)],   # narrower than the larger spacings (single-row case, fixed in 48f126a)
    'hexagon': [(20.0, 0.0), (50.0, 0.0), (65.0, 26.0), (50.0, 52.0), (20.0, 52.0), (5.0, 26.0)],
}
ROTS = [0.0, 0.3, -0.6, math.pi / 4, -1.2]


def units(tier, seed):
    rnd = random.Random(seed)
    F = ['rowwise.py:gen_borehole_config', 'rowwise.py:process_rows', 'rowwise.py:distribute', 'rowwise.py:remove_duplicates',
         'rowwise.py:find_duplicates', 'rowwise.py:less_than', 'shape.py:Shapes.line_intersect', 'shape.py:sort_intersections',
         'shape.py:vector_intersect', 'shape.py:Shapes.point_intersect']
    F2 = ['rowwise.py:field_optimization_fr', 'rowwise.py:field_optimization_wp_space_fr']
    F3 = ['rowwise.py:two_space_gen_bhc', 'rowwise.py:perimeter_distribute', 'rowwise.py:remove_points_too_close', 'rowwise.py:dist_from_line']
    AS = ['coordinates run natively in binary64; the spacing enters through floor-divisions and comparisons only',
          'spacing regions thinner than 1e-9 (relative) are outside the lattice-count and translation clauses',
          'no-go units: spacings for which some row crosses a zone on a chord shorter than the spacing are cut (intersections widened by (s-chord)/2: continuous in s)']
    polys = dict(POLYS)
    for k in range(2 if tier == 'quick' else 40):
        nv = rnd.randint(3, 12)
        polys['rand%d_%dv' % (k, nv)] = convex_polygon(rnd, nv, rnd.uniform(40, 60 if tier == 'quick' else 120), rnd.random() < 0.4)
    us = []
    names = list(polys)
    for i, nm in enumerate(names):
        poly = polys[nm]
        rots = [0.0] + ([ROTS[1 + i % 4]] if tier == 'quick' else ROTS[1:])
        for rot in rots:
            lat = nm.startswith('rect') and rot == 0.0
            us.append(Unit('gen_%s_rot%.2f' % (nm, rot), make_gen_fn(poly, rot, lat), make_gen_replay(poly, rot, lat), setup, F,
                           'polygon %s (%d vertices), rotation %.3f rad concrete; target spacing: all reals in [5,25] m' % (nm, len(poly), rot), AS, max_seconds=1500))
    # the ends of the documented rotation range (the default sweep starts at exactly -90 degrees): vertical rows
    for nm in (['rect_origin', 'tri_axes', 'rect60x40'] if tier == 'quick' else list(POLYS)):
        for rot in (-math.pi / 2, math.pi / 2):
            poly = polys[nm]
            us.append(Unit('gen_%s_rot%+.4f' % (nm, rot), make_gen_fn(poly, rot), make_gen_replay(poly, rot), setup, F,
                           'polygon %s, rotation %+.6f rad (= %+d degrees exactly as the sweep computes it); target spacing: all reals in [5,25] m' % (nm, rot, round(math.degrees(rot))),
                           AS, max_seconds=1500))
    # plain generator with no-go zones (one zone; two zones in both list orders: a row's crossings of *every* zone must be honoured)
    Z1 = [(30.0, 20.0), (45.0, 20.0), (45.0, 35.0), (30.0, 35.0)]
    Z2 = [(12.0, 14.0), (25.0, 14.0), (25.0, 30.0), (12.0, 30.0)]
    Z3 = [(48.0, 30.0), (62.0, 30.0), (62.0, 44.0), (48.0, 44.0)]
    H1 = [(25.0, 10.0), (40.0, 10.0), (40.0, 22.0), (25.0, 22.0)]
    H2 = [(30.0, 30.0), (46.0, 30.0), (46.0, 42.0), (30.0, 42.0)]
    ng = [('rect60x40', [Z1], 0.0), ('rect60x40', [Z2, Z3], 0.0), ('rect60x40', [Z3, Z2], 0.3), ('hexagon', [H1, H2], 0.0), ('hexagon', [H2, H1], -0.6)]
    if tier == 'thorough':
        ng += [('rect60x40', [Z2, Z3], -1.2), ('rect60x40', [Z1, Z2, Z3], 0.0), ('hexagon', [H1], math.pi / 4), ('rect60x40', [Z3, Z2], 0.0)]
    for nm, zones, rot in ng:
        us.append(Unit('gen_nogo%d_%s_rot%.2f_%s' % (len(zones), nm, rot, 'ab' if zones[0] in (Z2, H1, Z1) else 'ba'), make_gen_fn(polys[nm], rot, nogo=zones),
                       make_gen_replay(polys[nm], rot, nogo=zones), setup, F,
                       'polygon %s with %d convex no-go zone(s), rotation %.3f rad concrete; target spacing: all reals in [5,12] m' % (nm, len(zones), rot), AS, max_seconds=1500))
    for nm, rot, shift in [('rect60x40', 0.0, (13.0, 7.5)), ('tri', 0.3, (4.25, 31.0))] + ([] if tier == 'quick' else [('hexagon', -0.6, (100.0, 3.0)), ('tri_axes', 0.0, (0.5, 0.5))]):
        us.append(Unit('shift_%s_rot%.2f' % (nm, rot), make_shift_fn(polys[nm], rot, shift), make_shift_replay(polys[nm], rot, shift), setup, F,
                       'polygon %s translated by %s; spacing all reals in [5,25] m' % (nm, shift), AS, max_seconds=1500))
    for W, H, sp in EXACT:
        us.append(Unit('lattice_exact_%gx%g' % (W, H), make_exact_fn(W, H, sp), make_exact_replay(W, H, sp), setup, F,
                       'lot %g x %g m at the origin, rotation 0, spacing each of the exact divisors %s (forked)' % (W, H, sp), AS))
    sweeps = [(-90.0, 0.0, 15.0), (-30.0, 30.0, 7.5), (0.0, 45.0, 15.0)] if tier == 'quick' else [(-90.0, 0.0, 15.0), (-30.0, 30.0, 7.5), (-90.0, 90.0, 20.0), (0.0, 10.0, 1.0), (-45.0, 45.0, 10.0)]
    for a, b, st in sweeps:
        for which in ('fr', 'wp'):
            us.append(Unit('sweep_%s_%g_%g_%g' % (which, a, b, st), make_opt_fn(which, a, b, st), make_opt_replay(which, a, b, st), setup, F2,
                           'rotation window [%g, %g) deg step %g; borehole count of every tried rotation a symbolic Int 0..400' % (a, b, st),
                           stubs=['gen_borehole_config / two_space_gen_bhc -> token with a symbolic borehole count (this unit only)']))
    perim = [('rect60x40', [[(30.0, 20.0), (45.0, 20.0), (45.0, 35.0), (30.0, 35.0)]], 0.0, 0.8), ('hexagon', None, 0.3, 0.8)]
    if tier == 'thorough':
        perim += [('rect_origin', [[(10.0, 6.0), (26.0, 6.0), (26.0, 22.0), (10.0, 22.0)]], 0.0, 1.0), ('tri', None, 0.0, 0.6),
                  ('rect60x40', [[(15.0, 15.0), (30.0, 15.0), (30.0, 30.0), (15.0, 30.0)], [(45.0, 28.0), (62.0, 28.0), (62.0, 45.0), (45.0, 45.0)]], 0.0, 0.8)]
    for nm, nogo, rot, ratio in perim:
        us.append(Unit('perimeter_%s_%s_rot%.2f' % (nm, 'nogo%d' % len(nogo) if nogo else 'free', rot), make_perim_fn(polys[nm], nogo, rot, ratio),
                       make_perim_replay(polys[nm], nogo, rot, ratio), setup, F + F3,
                       'polygon %s with %s no-go zone(s), perimeter ratio %g, rotation %.2f; spacing all reals in [5,12] m' % (nm, len(nogo) if nogo else 0, ratio, rot),
                       AS, max_seconds=1500))
    us.append(Unit('twin_reachability', make_gen_fn(POLYS['tri'], 0.0, twin=True), None, setup, F, 'assert False must be violated', expect_cex=True))
    return us
