"""C17 - input files written by the tool are schema-valid and round-trip."""
import copy
import json
import os
import tempfile
from pathlib import Path
from types import SimpleNamespace as NS

import z3

from symx import *  # noqa: F403
from symx.runner import Unit, restore_shadows, shadow

from . import jsonschema_sym as JS
from .search_common import conj

PROPERTY = 'C17'
EXPLANATION = ('GHEManager setters, set_design, write_input_file, all to_input() methods and the setter sequence of '
               '_run_manager_from_cli_worker run with every numeric field symbolic (within the ranges the schemas allow), for each of the 6 '
               'geometry methods (RowWise with and without a perimeter ratio) x 4 pipe arrangements, optional max_boreholes / continue flag '
               'present or absent. jsonschema.validate is replaced by a schema -> constraint translator regenerated from '
               '/repo/ghedesigner/schemas on every run. Asserted: the written value tree satisfies every section schema for all values; '
               'loading it through the worker\'s setter sequence and writing again yields an equal tree (term equality; the degree<->radian '
               'pair with the exact binary64 constants). Counterexamples are replayed natively through the real file writer, the real '
               'jsonschema validator and the real CLI worker.')
OUTSIDE = ('JSON text encoding (dumps/loads taken as identity on the value tree; binary64 repr round-trips); fluids are concrete (pygfunction '
           'property lookup); "running it produces the same design" is delegated to C13 (same configuration => same result).')

GEOS = ['NEARSQUARE', 'RECTANGLE', 'BIRECTANGLE', 'BIZONEDRECTANGLE', 'BIRECTANGLECONSTRAINED', 'ROWWISE', 'ROWWISE_NOPERIM']
PIPES = ['SINGLEUTUBE', 'DOUBLEUTUBEPARALLEL', 'DOUBLEUTUBESERIES', 'COAXIAL']
PROP = [[0.0, 0.0], [60.0, 0.0], [60.0, 45.5], [0.0, 45.5]]
NOGO = [[[10.0, 10.0], [20.0, 10.0], [20.0, 20.0], [10.0, 20.0]]]
CAP = {}


def stub_generators():
    import ghedesigner.design as DS
    for name in ('square_and_near_square', 'rectangular', 'bi_rectangle_nested', 'bi_rectangle_zoned_nested', 'polygonal_land_constraint'):
        shadow(DS, name, lambda *a, **k: ([], []))
    shadow(DS, 'floor', sym_floor)
    shadow(DS, 'int', sym_int)


def setup():
    import ghedesigner.geometry as GEO
    import ghedesigner.manager as M
    from ghedesigner.borehole import GHEBorehole
    stub_generators()

    class RecBorehole:
        def __init__(self, height, buried_depth, radius, x, y):
            self.H, self.D, self.r_b, self.x, self.y = height, buried_depth, radius, x, y
        to_input = GHEBorehole.to_input
    shadow(M, 'GHEBorehole', RecBorehole)

    def cap_dumps(d, **kw):
        CAP['written'] = d
        return ''
    shadow(M, 'dumps', cap_dumps)
    shadow(M, 'validate_input_file', lambda p: 0)
    shadow(M, 'loads', lambda text: copy.copy(CAP['to_load']))
    shadow(M, 'print', lambda *a, **k: None)
    shadow(GEO, 'round', sym_round10)

    def fake_find(self, throw=True):
        CAP['mgr'] = self
        return 0
    shadow(M.GHEManager, 'find_design', fake_find)
    shadow(M.GHEManager, 'prepare_results', lambda self, *a, **k: None)
    shadow(M.GHEManager, 'write_output_files', lambda self, *a, **k: None)


def sym_round10(x, n=None):
    """round(x, 10) over the reals: nearest multiple of 1e-10 (ties measure-zero)"""
    if not isinstance(x, Sym):
        return round(x, n) if n is not None else round(x)
    if n != 10:
        raise Unsupported('round(x, %r)' % n)
    e = E()
    k = e.fresh('round', 'int')
    scaled = toreal(x.t) * 10 ** 10 + z3.RealVal('1/2')
    e.add(z3.And(z3.ToReal(k) <= scaled, scaled < z3.ToReal(k) + 1))       # k = floor(x * 1e10 + 1/2), as plain linear constraints
    return Rounded(k)


class Rounded(Sym):
    """k / 1e10 with k an integer variable; equality of two rounded values is the equality of their integers (z3 decides the
    integer form at once but answers unknown on the equivalent equation between the real quotients)"""
    __slots__ = ('k',)

    def __init__(self, k):
        Sym.__init__(self, z3.ToReal(k) / 10 ** 10)
        self.k = k

    def __eq__(self, o):
        if isinstance(o, Rounded):
            return SymBool(self.k == o.k)
        return Sym.__eq__(self, o)

    __hash__ = Sym.__hash__


class V:
    def __init__(self, e=None, model=None):
        self.e, self.model = e, model

    def real(self, name, lo, hi):
        return self.e.real(name, lo, hi) if self.e is not None else float(self.model[name])

    def integer(self, name, lo, hi):
        return self.e.int(name, lo, hi) if self.e is not None else int(self.model[name])


def configure(M, v, geo, pipe, opts):
    m = M.GHEManager()
    m.set_fluid(opts.get('fluid', 'Water'), opts.get('percent', 0.0), opts.get('temperature', 20.0))
    m.set_grout(conductivity=v.real('k_g', 0, 10), rho_cp=v.real('c_g', 0, 1e7))
    m.set_soil(conductivity=v.real('k_s', 0, 10), rho_cp=v.real('c_s', 0, 1e7), undisturbed_temp=v.real('ugt', -10, 40))
    if pipe == 'COAXIAL':
        m.set_coaxial_pipe(inner_pipe_d_in=v.real('d1', 0, 0.2), inner_pipe_d_out=v.real('d2', 0, 0.2), outer_pipe_d_in=v.real('d3', 0, 0.2),
                           outer_pipe_d_out=v.real('d4', 0, 0.2), roughness=v.real('rough', 0, 1e-3), conductivity_inner=v.real('k_pi', 0, 5),
                           conductivity_outer=v.real('k_po', 0, 5), rho_cp=v.real('c_p', 0, 1e7))
    else:
        fn = {'SINGLEUTUBE': m.set_single_u_tube_pipe, 'DOUBLEUTUBEPARALLEL': m.set_double_u_tube_pipe_parallel, 'DOUBLEUTUBESERIES': m.set_double_u_tube_pipe_series}[pipe]
        fn(inner_diameter=v.real('d_in', 0, 0.2), outer_diameter=v.real('d_out', 0, 0.2), shank_spacing=v.real('shank', 0, 0.2),
           roughness=v.real('rough', 0, 1e-3), conductivity=v.real('k_p', 0, 5), rho_cp=v.real('c_p', 0, 1e7))
    maxh, minh = v.real('max_h', 0, 1000), v.real('min_h', 0, 1000)
    m.set_borehole(height=maxh, buried_depth=v.real('D', 0, 20), diameter=v.real('d_b', 0.01, 1))
    kw = {}
    if opts.get('cap'):
        kw['max_boreholes'] = v.integer('cap', 2, 5000)
    if opts.get('cont'):
        kw['continue_if_design_unmet'] = True
    m.set_simulation_parameters(num_months=v.integer('months', 1, 600), max_eft=v.real('max_eft', -20, 80), min_eft=v.real('min_eft', -20, 80),
                                max_height=maxh, min_height=minh, **kw)
    m.set_ground_loads_from_hourly_list([float(i % 7) - 3.0 for i in range(8760)])
    L, W = v.real('L', 0, 1000), v.real('W', 0, 1000)
    bmin, bmx, bmy = v.real('b_min', 0, 50), v.real('b_max_x', 0, 50), v.real('b_max_y', 0, 50)
    if geo == 'NEARSQUARE':
        m.set_design_geometry_type('nearsquare')
        m.set_geometry_constraints_near_square(b=v.real('b', 0.1, 50), length=L)
    elif geo == 'RECTANGLE':
        m.set_geometry_constraints_rectangle(length=L, width=W, b_min=bmin, b_max=bmx)
    elif geo == 'BIRECTANGLE':
        m.set_geometry_constraints_bi_rectangle(length=L, width=W, b_min=bmin, b_max_x=bmx, b_max_y=bmy)
    elif geo == 'BIZONEDRECTANGLE':
        m.set_geometry_constraints_bi_zoned_rectangle(length=L, width=W, b_min=bmin, b_max_x=bmx, b_max_y=bmy)
    elif geo == 'BIRECTANGLECONSTRAINED':
        prop = [[[v.real('px0', 0, 500), v.real('py0', 0, 500)]] + [list(p) for p in PROP[1:]]]
        m.set_geometry_constraints_bi_rectangle_constrained(b_min=bmin, b_max_x=bmx, b_max_y=bmy, property_boundary=prop, no_go_boundaries=copy.deepcopy(NOGO))
    else:
        ratio = v.real('ratio', 0, 2) if geo == 'ROWWISE' else None
        m.set_geometry_constraints_rowwise(perimeter_spacing_ratio=ratio, max_spacing=v.real('s_max', 0, 50), min_spacing=v.real('s_min', 0, 50),
                                           spacing_step=v.real('s_step', 0, 5), max_rotation=v.real('rot_max', -90, 90),
                                           min_rotation=v.real('rot_min', -90, 90), rotate_step=v.real('rot_step', 0.1, 45),
                                           property_boundary=[list(p) for p in PROP], no_go_boundaries=copy.deepcopy(NOGO))
    m.set_design(flow_rate=v.real('flow', 0, 100), flow_type_str=opts.get('flow_type', 'borehole'))
    return m


def tree_equal(a, b):
    if isinstance(a, dict) or isinstance(b, dict):
        if not (isinstance(a, dict) and isinstance(b, dict)) or set(a) != set(b):
            return False
        return conj([tree_equal(a[k], b[k]) for k in a])
    if isinstance(a, (list, tuple)) or isinstance(b, (list, tuple)):
        if not (isinstance(a, (list, tuple)) and isinstance(b, (list, tuple))) or len(a) != len(b):
            return False
        if len(a) > 100 and all(not isinstance(x, Sym) for x in a) and all(not isinstance(x, Sym) for x in b):
            return list(a) == list(b)
        return conj([tree_equal(x, y) for x, y in zip(a, b)])
    if isinstance(a, Sym) or isinstance(b, Sym):
        if a is None or b is None or isinstance(a, (str, bool)) or isinstance(b, (str, bool)):
            return False
        return a == b
    return type(a) == type(b) and a == b if isinstance(a, (bool, str)) or isinstance(b, (bool, str)) or a is None or b is None else a == b


def config_state(m):
    """the configuration held by a manager, read from the objects themselves (not through to_input)"""
    st = {}
    f = m._fluid
    st['fluid'] = (f.fluid_type.name, f.concentration_percent, f.temperature)
    st['grout'] = (m._grout.k, m._grout.rhoCp)
    st['soil'] = (m._soil.k, m._soil.rhoCp, m._soil.ugt)
    p = m._pipe
    st['pipe'] = (m.pipe_type.name, p.r_in, p.r_out, p.s, p.roughness, p.k, p.rhoCp, p.n_pipes, [list(q) for q in p.pos] if isinstance(p.pos, list) else list(p.pos))
    st['borehole'] = (m._borehole.D, m._borehole.r_b, m._borehole.H)
    sp = m._simulation_parameters
    st['simulation'] = (sp.start_month, sp.end_month, sp.max_EFT_allowable, sp.min_EFT_allowable, sp.max_height, sp.min_height, sp.max_boreholes,
                        bool(sp.continue_if_design_unmet))
    g = m._geometric_constraints
    st['geometry'] = {k: (v.name if hasattr(v, 'name') and not isinstance(v, (Sym, str)) else v) for k, v in sorted(vars(g).items())}
    st['design'] = (type(m._design).__name__, m._design.V_flow, m._design.flow_type.name, m._design.method.name)
    st['loads'] = list(m._ground_loads)
    return st


def state_equal(a, b, path=''):
    """equality of two configurations; rotation limits (radians) within 1e-9 (they are written rounded to 1e-10 degree)"""
    if isinstance(a, dict):
        if not isinstance(b, dict) or set(a) != set(b):
            return False
        return conj([state_equal(a[k], b[k], path + '/' + str(k)) for k in a])
    if isinstance(a, (list, tuple)):
        if not isinstance(b, (list, tuple)) or len(a) != len(b):
            return False
        if len(a) > 100:
            return list(a) == list(b)
        return conj([state_equal(x, y, path) for x, y in zip(a, b)])
    if path.endswith('_rotation'):
        return abs(a - b) <= 1e-9
    if isinstance(a, Sym) or isinstance(b, Sym):
        if a is None or b is None or isinstance(a, (str, bool)) or isinstance(b, (str, bool)):
            return False
        return a == b
    if isinstance(a, float) or isinstance(b, float):
        return a is not None and b is not None and not isinstance(a, str) and not isinstance(b, str) and abs(a - b) <= 1e-12 * (abs(a) + abs(b))
    return a == b


def make_fn(geo, pipe, opts, twin=False):
    def fn(e):
        import ghedesigner.manager as M
        v = V(e=e)
        m = configure(M, v, geo, pipe, opts)
        CAP.clear()
        rc = m.write_input_file('/dev/null')
        d1 = CAP['written']
        if twin:
            return False
        verdicts = JS.section_verdicts(d1)
        cs = [rc == 0] + [verdicts[k] for k in sorted(verdicts)]
        # read back through the command-line loading path and write again
        CAP['to_load'] = d1
        rc2 = M._run_manager_from_cli_worker(NS(read_text=lambda: ''), Path('/dev/null'))
        cs.append(rc2 == 0)
        m2 = CAP.get('mgr')
        if m2 is None:
            return False
        m2.write_input_file('/dev/null')
        d2 = CAP['written']
        cs.append(tree_equal(d1, d2))
        cs.append(state_equal(config_state(m), config_state(m2)))        # the same configuration, not merely the same file
        # ... and the configuration the caller asked for (arguments of the setters), not only what the first manager happened to store
        asked = str(opts.get('flow_type', 'borehole')).upper()
        cs += [m._design.flow_type.name == asked, m2._design.flow_type.name == asked, str(d1['design']['flow_type']).upper() == asked]
        fl_asked = (str(opts.get('fluid', 'Water')).upper(), float(opts.get('percent', 0.0)), float(opts.get('temperature', 20.0)))
        cs += [(str(d1['fluid']['fluid_name']).upper(), float(d1['fluid']['concentration_percent']), float(d1['fluid']['temperature'])) == fl_asked,
               (m2._fluid.fluid_type.name, float(m2._fluid.concentration_percent), float(m2._fluid.temperature)) == fl_asked]
        if 'rot_min' in e.inputs:
            # counterexamples are preferred at angles whose degree -> radian -> degree conversion is inexact in binary64
            e.prefer.append(z3.And(z3.Or(e.inputs['rot_min'] == 30, e.inputs['rot_min'] == -30), z3.Or(e.inputs['rot_max'] == 30, e.inputs['rot_max'] == 7)))
        e.notes['failed_sections'] = [k for k in verdicts if verdicts[k] is False]
        return conj(cs)
    return fn


def make_replay(geo, pipe, opts):
    def replay(model, notes):
        """native: real GHEBorehole, real file writer, real jsonschema, real CLI worker (find_design/outputs patched out)"""
        restore_shadows()
        import ghedesigner.manager as M
        from ghedesigner.validate import validate_input_file
        stub_generators()
        got = {}

        def fake_find(self, throw=True):
            got['mgr'] = self
            return 0
        shadow(M.GHEManager, 'find_design', fake_find)
        shadow(M.GHEManager, 'prepare_results', lambda self, *a, **k: None)
        shadow(M.GHEManager, 'write_output_files', lambda self, *a, **k: None)
        tmp = tempfile.mkdtemp(prefix='c17_', dir='/dev/shm' if os.path.isdir('/dev/shm') else None)
        try:
            m = configure(M, V(model=model), geo, pipe, opts)
            f1, f2 = Path(tmp) / 'in1.json', Path(tmp) / 'in2.json'
            m.write_input_file(f1)
            import contextlib
            import io
            with contextlib.redirect_stderr(io.StringIO()):
                errs = validate_input_file(f1)
                rc = M._run_manager_from_cli_worker(f1, Path(tmp) / 'out')
            info = dict(validation_errors=errs, worker_rc=rc)
            if errs != 0 or rc != 0 or 'mgr' not in got:
                return True, info
            got['mgr'].write_input_file(f2)
            asked = str(opts.get('flow_type', 'borehole')).upper()
            stored = (m._design.flow_type.name, got['mgr']._design.flow_type.name, str(json.loads(f1.read_text())['design']['flow_type']).upper())
            if any(x != asked for x in stored):
                info['flow_type'] = dict(asked=asked, first_manager=stored[0], reloaded_manager=stored[1], written=stored[2])
                return True, info
            fl_asked = (str(opts.get('fluid', 'Water')).upper(), float(opts.get('percent', 0.0)), float(opts.get('temperature', 20.0)))
            wf = json.loads(f1.read_text())['fluid']
            fl_written = (str(wf['fluid_name']).upper(), float(wf['concentration_percent']), float(wf['temperature']))
            m2 = got['mgr']
            fl_loaded = (m2._fluid.fluid_type.name, float(m2._fluid.concentration_percent), float(m2._fluid.temperature))
            if fl_written != fl_asked or fl_loaded != fl_asked:
                info['fluid'] = dict(asked=fl_asked, written=fl_written, reloaded_manager=fl_loaded)
                return True, info
            same = f1.read_text() == f2.read_text()
            if same and not bool(state_equal(config_state(m), config_state(got['mgr']))):
                a, b = config_state(m), config_state(got['mgr'])
                info['configuration_differs'] = {k: (str(a[k])[:120], str(b[k])[:120]) for k in a if not bool(state_equal(a[k], b[k], '/' + k))}
                return True, info
            if not same:
                a, b = json.loads(f1.read_text()), json.loads(f2.read_text())
                info['diff'] = {sec: {k: (a[sec].get(k), b[sec].get(k)) for k in a[sec] if a[sec].get(k) != b[sec].get(k)} for sec in a
                                if isinstance(a[sec], dict) and a[sec] != b[sec]}
            return not same, info
        except Exception as ex:  # noqa: BLE001
            return True, dict(exception='%s: %s' % (type(ex).__name__, ex))
        finally:
            restore_shadows()
            import shutil
            shutil.rmtree(tmp, ignore_errors=True)
    return replay


def translator_selfcheck_fn(e):
    """the translator agrees with the real jsonschema on every demo file and on simple corruptions of them"""
    import glob

    import jsonschema
    ok = []
    files = sorted(glob.glob(os.path.join(os.path.dirname(JS.schema_dir()), '..', 'demos', 'find_design_*.json')))
    for f in files:
        inst = json.load(open(f))
        variants = [inst]
        for sec, key, val in (('grout', 'conductivity', -1.0), ('soil', 'rho_cp', 'x'), ('borehole', 'diameter', None), ('design', 'flow_type', 'PIPE'),
                              ('fluid', 'concentration_percent', 61), ('geometric_constraints', 'max_height', -5)):
            c = copy.deepcopy(inst)
            c[sec][key] = val
            variants.append(c)
            c2 = copy.deepcopy(inst)
            c2[sec].pop(key, None)
            variants.append(c2)
        for inst_v in variants:
            try:
                mine = JS.section_verdicts(inst_v)
            except KeyError:
                continue
            names = {'fluid': 'fluid.schema.json', 'grout': 'grout.schema.json', 'soil': 'soil.schema.json', 'borehole': 'borehole.schema.json', 'design': 'design.schema.json'}
            for sec, sch in names.items():
                inst_s = dict(inst_v[sec])
                if sec == 'fluid':
                    inst_s['fluid_name'] = str(inst_s['fluid_name']).upper()
                if sec == 'design':
                    inst_s['flow_type'] = str(inst_s['flow_type']).upper()
                try:
                    jsonschema.validate(instance=inst_s, schema=JS.load(sch))
                    real = True
                except jsonschema.ValidationError:
                    real = False
                ok.append(bool(mine[sec]) == real)
    return len(ok) > 50 and all(ok)


def units(tier, seed):
    F = ['manager.py:GHEManager.write_input_file', 'manager.py:GHEManager.set_*', 'manager.py:_run_manager_from_cli_worker', 'geometry.py:*.to_input',
         'media.py:*.to_input', 'simulation.py:SimulationParameters.to_input', 'design.py:DesignBase.to_input', 'borehole.py:GHEBorehole.to_input']
    ST = ['jsonschema.validate -> schema-to-constraint translator regenerated from the schema files', 'json dumps/loads -> identity on the value tree',
          'Design* candidate generators -> empty lists; find_design / outputs -> no-ops', 'GHEBorehole -> plain record with the real to_input']
    AS = ['numeric inputs within the ranges the schemas allow', 'floats as reals, with the exact binary64 values of DEG_TO_RAD / RAD_TO_DEG']
    us = []
    combos = []
    for gi, geo in enumerate(GEOS):
        pipes = PIPES if tier == 'thorough' else [PIPES[gi % 4], PIPES[(gi + 1) % 4]]
        for pi, pipe in enumerate(pipes):
            opt_list = [dict(), dict(cap=True, cont=True, flow_type='SyStEm', fluid='PropyleneGlycol', percent=25.0, temperature=-2.0)] if tier == 'thorough' else \
                [dict(cap=bool((gi + pi) % 2), cont=bool(gi % 2), flow_type=['borehole', 'system'][pi % 2],
                      # values that differ from every default of the setters (a default silently substituted on reading must show)
                      temperature=[20.0, 7.5, 31.0][(gi + pi) % 3],
                      fluid=['Water', 'PropyleneGlycol', 'EthyleneGlycol', 'MethylAlcohol', 'EthylAlcohol'][(2 * gi + pi) % 5],
                      percent=[0.0, 25.0, 12.5, 20.0, 15.0][(2 * gi + pi) % 5])]
            for oi, opts in enumerate(opt_list):
                combos.append((geo, pipe, opts, oi))
    for geo, pipe, opts, oi in combos:
        us.append(Unit('%s_%s_%d' % (geo, pipe, oi), make_fn(geo, pipe, opts), make_replay(geo, pipe, opts), setup, F,
                       'geometry %s, pipe %s, options %s; every numeric field a symbolic real/int within the schema range' % (geo, pipe, opts), AS, ST, max_seconds=600))
    us.append(Unit('translator_vs_jsonschema', translator_selfcheck_fn, None, None, ['schemas/*.json'], 'all demo input files and 12 single-field corruptions each, 5 sections'))
    us.append(Unit('twin_reachability', make_fn('RECTANGLE', 'SINGLEUTUBE', {}, twin=True), None, setup, F, 'assert False must be violated', expect_cex=True))
    return us
