"""C03 - rectangular-family candidate fields stay on the land and respect spacing."""
import math
import random
from types import SimpleNamespace as NS

import z3

from symx import *  # noqa: F403
from symx.runner import Unit, restore_shadows, shadow

from .search_common import conj

PROPERTY = 'C03'
EXPLANATION = ('Pattern B: the real generators (domains.square_and_near_square/rectangular/bi_rectangular/bi_rectangle_nested/'
               'zoned_rectangle_domain/bi_rectangle_zoned_nested, coordinates.*, DesignNearSquare.__init__) run with the land rectangle '
               'concrete and the spacing bounds (b_min, b_max_x, b_max_y, b) symbolic reals; the solver partitions the whole spacing '
               'range into regions of constant row/column counts and on each region every borehole of every field is shown to lie in '
               '[0,length]x[0,width], no two boreholes coincide, all pair distances are >= b_min, near-square fields are n x n / n x (n+1) '
               'grids at spacing b with (n-1) b <= length, and the lists are ordered by non-decreasing count. A second unit checks the '
               'floor/ceil kernel under the standard floating-point relative-error model.')
OUTSIDE = ('symbolic land sides (floor(ly*(n-1)/lx+1) with both symbolic: z3 unknown beyond small lots, probed) - lots are a concrete '
           'catalogue + seeded pairs; lots narrower than three rows at the maximum spacing; sub-ulp effects at count boundaries other '
           'than the kernel lemma.')
TOL = 1e-9
FULL_GRIDS = False


def setup():
    import ghedesigner.design as DS
    import ghedesigner.domains as D
    from symx import engine
    engine.OPTIONS['div_mode'] = 'quot'
    shadow(D, 'ceil', sym_ceil)
    shadow(D, 'floor', sym_floor)
    shadow(D, 'range', sym_range)
    shadow(DS, 'floor', sym_floor)
    shadow(DS, 'int', sym_int)


class V:
    def __init__(self, e=None, model=None):
        self.e, self.model = e, model

    def real(self, name, lo, hi):
        return self.e.real(name, lo, hi) if self.e is not None else float(self.model[name])

    def assume(self, c):
        if self.e is not None:
            self.e.assume(c)


def fnum(x):
    return float(x) if not isinstance(x, Sym) else x


_MEMO = {}


def min_pair_distance(pts):
    n = len(pts)
    sp = sorted(pts)
    dmin = None
    for i in range(n):
        for j in range(i + 1, n):
            dx = sp[j][0] - sp[i][0]
            if dmin is not None and dx > dmin:
                break
            d = math.hypot(dx, sp[j][1] - sp[i][1])
            if dmin is None or d < dmin:
                dmin = d
    return dmin


def _det(x):
    """coordinate as a float: concrete, or a symbolic term whose value the path condition has fixed (e.g. L/(n-1) once
    the count n has been forked on)"""
    if not isinstance(x, Sym):
        return float(x)
    v = E().determined_value(x.t)
    if v is None:
        raise Unsupported('coordinate not determined by the path condition: %s' % x)
    return float(v)


def concrete_field(field, length, width):
    """(all points on the land, nearest-pair distance) of a field with concrete coordinates (memoised across paths)"""
    pts = tuple((_det(x), _det(y)) for x, y in field)
    if pts not in _MEMO:
        xs = [p[0] for p in pts]
        ys = [p[1] for p in pts]
        _MEMO[pts] = (min(xs), max(xs), min(ys), max(ys), min_pair_distance(pts))
    xmin, xmax, ymin, ymax, dmin = _MEMO[pts]
    return (xmin >= -TOL and xmax <= length + TOL and ymin >= -TOL and ymax <= width + TOL), dmin


def field_checks(field, length, width, b_min, label):
    """all points on the land; no coincident points; all pair distances >= b_min (coordinates are concrete on a path
    for the rectangle family; for near-square they are multiples of the symbolic b)"""
    cs = []
    pts = [(fnum(x), fnum(y)) for x, y in field]
    n = len(pts)
    conc = all(not isinstance(c, Sym) for p in pts for c in p)
    if conc:
        key = tuple(pts)
        if key in _MEMO:
            xmin, xmax, ymin, ymax, dmin = _MEMO[key]
        else:
            xmin, xmax = min(p[0] for p in pts), max(p[0] for p in pts)
            ymin, ymax = min(p[1] for p in pts), max(p[1] for p in pts)
            dmin = min_pair_distance(pts)
            _MEMO[key] = (xmin, xmax, ymin, ymax, dmin)
        cs += [xmin >= -TOL, xmax <= length + TOL, ymin >= -TOL, ymax <= width + TOL]
        if dmin is not None:
            cs.append(dmin > 1e-9)                       # no coincident boreholes
            cs.append(b_min <= dmin * (1 + 1e-12) + 1e-12)
        return cs
    for x, y in pts:
        cs += [x >= -TOL, x <= length + TOL, y >= -TOL, y <= width + TOL]
    if conc:
        # exact nearest-neighbour distance by a sweep over x-sorted points
        sp = sorted(pts)
        dmin = None
        for i in range(n):
            for j in range(i + 1, n):
                dx = sp[j][0] - sp[i][0]
                if dmin is not None and dx > dmin:
                    break
                d = math.hypot(dx, sp[j][1] - sp[i][1])
                if dmin is None or d < dmin:
                    dmin = d
        if dmin is not None:
            cs.append(dmin > 1e-9)                       # no coincident boreholes
            cs.append(b_min <= dmin * (1 + 1e-12) + 1e-12)
    else:
        for i in range(n):
            for j in range(i + 1, n):
                dx, dy = pts[i][0] - pts[j][0], pts[i][1] - pts[j][1]
                cs.append(dx * dx + dy * dy >= b_min * b_min)
    return cs


def counts_nondecreasing(dom):
    return all(len(a) <= len(b) for a, b in zip(dom, dom[1:]))


def body(v, kind, L, W, rng=(2.0, 25.0, 25.0)):
    import ghedesigner.domains as D
    lo, hi_min, hi_max = rng
    bmin = v.real('b_min', lo, hi_min)
    if kind == 'near_square':
        import ghedesigner.design as DS
        b = v.real('b', lo, hi_max)
        v.assume(b <= L)
        gc = NS(b=b, length=L)
        d = DS.DesignNearSquare.__new__(DS.DesignNearSquare)
        DS.DesignNearSquare.__init__(d, 0.3, NS(), None, NS(), NS(), NS(), NS(), NS(), gc, [], 'HYBRID')
        dom = d.coordinates_domain
        cs = [counts_nondecreasing(dom), len(dom) == len(d.fieldDescriptors), len(dom) >= 2]
        k = 0
        for n_side in range(1, len(dom) // 2 + 1):
            for j in range(2):
                f = dom[k]
                k += 1
                cs.append(len(f) == n_side * (n_side + j))
                # n x (n+j) grid at exactly spacing b (quick tier: every point for grids up to 8 rows and for the two largest
                # candidates, first/last point of each row otherwise)
                exp = [(i * b, jj * b) for i in range(n_side) for jj in range(n_side + j)]
                cs.append(len(exp) == len(f))
                full = FULL_GRIDS or n_side <= 8 or k >= len(dom) - 1
                idx = range(len(f)) if full else sorted({t for i in range(n_side) for t in (i * (n_side + j), i * (n_side + j) + n_side + j - 1)})
                cs += [conj([f[t][0] == exp[t][0], f[t][1] == exp[t][1]]) for t in idx]
        nmax = len(dom) // 2
        cs.append((nmax - 1) * b <= L)
        cs.append(nmax * b > L)                      # and no larger grid would fit: the domain is complete
        return cs
    bmx = v.real('b_max_x', lo, hi_max)
    v.assume(bmin <= bmx)
    long_side = max(L, W)
    short_side = min(L, W)
    if kind == 'rect':
        # the generators need at least three rows at the maximum spacing (narrower lots raise by design)
        v.assume((bmx * 2 <= long_side) & (bmx * 2 <= short_side))
        dom, desc = D.rectangular(L, W, bmin, bmx)
        doms = [dom]
    else:
        bmy = v.real('b_max_y', lo, hi_max)
        v.assume(bmin <= bmy)
        v.assume((bmx * 2 <= L) & (bmy * 2 <= W))
        if kind == 'bizoned':
            # bi_rectangle_zoned_nested indexes an empty list when a spacing window admits no integer row count
            # (degenerate input; the other generators return an empty candidate list, which is checked as such)
            admits_count(v, L, bmin, bmx)
            admits_count(v, W, bmin, bmy)
        if kind == 'birect':
            nested, desc = D.bi_rectangle_nested(L, W, bmin, bmx, bmy)
            doms = nested
        elif kind == 'bizoned':
            nested, desc = D.bi_rectangle_zoned_nested(L, W, bmin, bmx, bmy)
            doms = nested
        else:
            raise ValueError(kind)
    cs = []
    worst = None
    for dom in doms:
        if kind != 'bizoned':
            cs.append(counts_nondecreasing(dom))
        for f in dom:
            ok_inside, dmin = concrete_field(f, L, W)
            cs.append(ok_inside)
            if dmin is not None and (worst is None or dmin < worst):
                worst = dmin
    if worst is not None:
        cs.append(worst > 1e-9)                                   # no coincident boreholes in any field
        cs.append(bmin <= worst * (1 + 1e-12) + 1e-12)            # the closest pair of any field is at least b_min apart
    return cs


def admits_count(v, side, bmin, bmax):
    """non-degenerate spacing window: some integer number of rows n gives b_min <= side/(n-1) <= b_max
    (otherwise the generators have no candidate at all and index an empty list)"""
    if v.e is None:
        return
    n = v.e.fresh('nrows', 'int')
    v.e.add(z3.And(n >= 2, lift(bmin * Sym(z3.ToReal(n) - 1)) <= lift(side), lift(side) <= lift(bmax * Sym(z3.ToReal(n) - 1))))


def make_fn(kind, L, W, twin=False, rng=(2.0, 25.0, 25.0)):
    def fn(e):
        cs = body(V(e=e), kind, L, W, rng)
        return False if twin else conj(cs)
    return fn


def make_replay(kind, L, W, rng=(2.0, 25.0, 25.0)):
    def replay(model, notes):
        restore_shadows()
        try:
            cs = body(V(model=model), kind, L, W, rng)
        except Exception as ex:  # noqa: BLE001
            return True, dict(exception='%s: %s' % (type(ex).__name__, ex))
        bad = [k for k, c in enumerate(cs) if not bool(c)]
        return bool(bad), dict(failed_checks=bad[:8], n_checks=len(cs), kind=kind, lot=(L, W), spacings=model)
    return replay


# -- floor/ceil kernel under the floating-point relative-error model ----------------------------------------
def fp_kernel_fn(n_lo, n_hi):
    """x = fl(fl(L/b) + 1), n_max = floor(x); for every count n <= n_max used by the code the spacing fl(L/(n-1)) is
    >= b (1 - 1e-12).  Each float operation result = exact (1 + eps), |eps| <= 2^-53."""
    def fn(e):
        n = e.int('n', n_lo, n_hi)
        q = e.real('q', 1, 1000)          # q = L / b (exact), L and b themselves drop out
        U = 2.0 ** -53
        e1, e2, e3 = e.real('e1', -U, U), e.real('e2', -U, U), e.real('e3', -U, U)
        nn = n.__index__()                # one query per count
        x = (q * (1 + e1) + 1) * (1 + e2)
        e.assume(x >= nn)                 # n <= floor(x)
        spacing_over_b = q / (nn - 1) * (1 + e3)
        return spacing_over_b >= 1 - 1e-12
    return fn


def rederived_tolerance():
    """the guard the current source subtracts before ceil() in bi_rectangular's row count (0 if there is none)"""
    import inspect
    import re

    import ghedesigner.domains as D
    src = inspect.getsource(D.bi_rectangular)
    m = re.search(r'n_2\s*=\s*ceil\(\(length_2\s*/\s*b_max_2\)\s*\+\s*1\s*(?:-\s*([0-9.eE+-]+))?\)', src)
    if m is None:
        raise Unsupported('bi_rectangular: row-count expression not recognised - the float lemma has to be rewritten')
    return float(m.group(1)) if m.group(1) else 0.0


def fp_rederived_fn(n_lo, n_hi):
    """bi_rectangle_nested hands bi_rectangular the spacing b = fl(L/(n-1)); bi_rectangular recovers the row count as
    ceil(fl(fl(fl(L/b) + 1) - tol)). In the relative-error model the recovered count is n for every n and L (otherwise an extra row
    appears and the rows are closer than b_min)."""
    def fn(e):
        tol = rederived_tolerance()
        n = e.int('n', n_lo, n_hi)
        U = 2.0 ** -53
        e1, e2, e3, e4 = (e.real('e%d' % k, -U, U) for k in (1, 2, 3, 4))
        nn = n.__index__()
        ratio = (nn - 1) / (1 + e1) * (1 + e2)          # fl(L / fl(L/(n-1)))
        x = (ratio + 1) * (1 + e3)
        if tol:
            x = (x - tol) * (1 + e4)
        return (x > nn - 1) & (x <= nn)                 # ceil(x) == n
    return fn


def fp_rederived_replay(model, notes):
    """native: look for a side length for which the real generator recovers a different count (binary64), near the model's n"""
    restore_shadows()
    import math

    import ghedesigner.domains as D
    n0 = int(model['n'])
    for n in [n0] + list(range(3, 60)):
        for L in [x * 0.5 for x in range(20, 401)]:
            b = L / (n - 1)
            dom, _ = D.bi_rectangular(L, L, b * 0.98, 4 * b, b)
            worst = None
            for f in dom:
                ys = sorted({float(y) for _, y in f})
                gaps = [q - p for p, q in zip(ys, ys[1:])]
                if gaps and (worst is None or min(gaps) < worst):
                    worst = min(gaps)
            if worst is not None and worst < b * 0.98 * (1 - 1e-9):
                return True, dict(side=L, rows_intended=n, spacing_handed_over=b, b_min=b * 0.98, closest_rows=worst)
    return False, 'no binary64 instance found on the half-metre grid of side lengths'


LOTS_Q = [(70.0, 40.0), (40.0, 70.0), (20.0, 60.0), (33.3, 47.1)]
LOTS_T = LOTS_Q + [(85.0, 40.0), (40.0, 85.0), (60.0, 60.0), (36.5, 85.0), (85.0, 36.5), (100.0, 20.0), (20.0, 100.0), (100.0, 100.0), (60.0, 61.0), (47.1, 33.3), (120.0, 45.5), (25.0, 80.0), (50.0, 30.0)]


def units(tier, seed):
    global FULL_GRIDS
    FULL_GRIDS = tier == 'thorough'
    rnd = random.Random(seed)
    lots = list(LOTS_Q if tier == 'quick' else LOTS_T)
    for _ in range(1 if tier == 'quick' else 8):
        lots.append((round(rnd.uniform(20, 60 if tier == 'quick' else 90), 1), round(rnd.uniform(20, 60 if tier == 'quick' else 90), 1)))
    F = ['domains.py:square_and_near_square', 'domains.py:rectangular', 'domains.py:bi_rectangular', 'domains.py:bi_rectangle_nested',
         'domains.py:zoned_rectangle_domain', 'domains.py:bi_rectangle_zoned_nested', 'coordinates.py:rectangle', 'coordinates.py:open_rectangle',
         'coordinates.py:c_shape', 'coordinates.py:lop_u', 'coordinates.py:l_shape', 'coordinates.py:zoned_rectangle',
         'coordinates.py:transpose_coordinates', 'design.py:DesignNearSquare.__init__']
    AS = ['floats as reals (float rounding at count boundaries covered by the fp_kernel unit only)', 'division by quotient variables']
    us = []
    for L, W in lots:
        for kind in ('rect', 'birect', 'bizoned'):
            if kind == 'rect':
                rng = (3.0, 25.0, 25.0) if tier == 'quick' else (2.0, 25.0, 25.0)
            else:
                rng = (5.0, 10.0, 20.0) if tier == 'quick' else (4.0, 12.0, 22.0)
                if tier == 'thorough' and L * W > 6000:
                    continue            # the number of count regions grows with (L/b_min)(W/b_min): the largest lots only through the rectangle generator
            us.append(Unit('%s_%gx%g' % (kind, L, W), make_fn(kind, L, W, rng=rng), make_replay(kind, L, W, rng), setup, F,
                           '%s generator, land %g x %g m concrete; b_min all reals in [%g,%g], b_max_x, b_max_y all reals in [b_min,%g], at least three rows at the maximum spacing'
                           % (kind, L, W, rng[0], rng[1], rng[2]), AS, max_seconds=2400 if tier == 'thorough' else 700, timeout_ms=60000))
    for L in sorted({l for l, _ in lots if l <= 100.0}):
        nrng = (4.0, 25.0, 25.0) if tier == 'quick' else (3.0, 25.0, 25.0)      # the number of count regions (and the grid sizes) grow with L/b: 120 m at 2 m did not finish in 25 min
        us.append(Unit('near_square_%g' % L, make_fn('near_square', L, L, rng=nrng), make_replay('near_square', L, L, nrng), setup, F,
                       'near-square design, side %g m concrete, spacing b all reals in [%g, min(25, side)]' % (L, nrng[0]), AS, max_seconds=1500))
    us.append(Unit('fp_kernel', fp_kernel_fn(3, 120 if tier == 'quick' else 400), None, None, [],
                   'count n: every Int in 3..%d; ratio L/b all reals in [1,1000]; three rounding errors |eps| <= 2^-53' % (120 if tier == 'quick' else 400),
                   ['standard relative-error model of binary64 (normal range)'], max_seconds=900))
    us.append(Unit('fp_kernel_rederived_rows', fp_rederived_fn(3, 120 if tier == 'quick' else 400), fp_rederived_replay, None, ['domains.py:bi_rectangular (row-count line, read from the source)'],
                   'row count n: every Int in 3..%d; four rounding errors |eps| <= 2^-53; any side length' % (120 if tier == 'quick' else 400),
                   ['standard relative-error model of binary64 (normal range)'], max_seconds=900))
    us.append(Unit('twin_reachability', make_fn('rect', 40.0, 30.0, twin=True), None, setup, F, 'assert False must be violated', expect_cex=True))
    return us
