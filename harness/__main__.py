import importlib
import sys
import warnings

warnings.simplefilter('ignore')
sys.dont_write_bytecode = True


def main():
    if len(sys.argv) < 2:
        print('usage: ./check <C01..C20|all> [--tier quick|thorough] [--replay path] [--only glob]')
        return 3
    pid = sys.argv[1]
    from symx import runner
    if pid == 'all':
        rc = 0
        for i in range(1, 21):
            name = 'harness.c%02d' % i
            try:
                importlib.import_module(name)
            except ModuleNotFoundError:
                continue
            rc = max(rc, runner.main(name, sys.argv[2:]))
        return rc
    return runner.main('harness.' + pid.lower(), sys.argv[2:])


sys.exit(main())
