"""C18 - command-line exit status and validation verdict reflect the outcome."""
import copy
import glob
import json
import os
import tempfile
from pathlib import Path
from types import SimpleNamespace as NS

import z3

from symx import *  # noqa: F403
from symx.runner import Unit, restore_shadows, shadow

from . import jsonschema_sym as JS
from .search_common import conj

PROPERTY = 'C18'
EXPLANATION = ('(1) The real click command run_manager_from_cli is invoked in-process through click\'s own main() (standalone mode) with '
               'validate_input_file returning a symbolic error count and the heavy tail of the worker (find_design, outputs) stubbed; the '
               'process exit status (SystemExit code, 0 when the callback merely returns) is asserted non-zero whenever validation '
               'fails, an unsupported --convert value is given, the output directory is missing or the conversion fails, and zero '
               'exactly when outputs were written / the file is valid under --validate-only / the conversion succeeded. (2) '
               'validate.validate_input_file and the per-section functions run on a demo instance with one field replaced by an '
               'unconstrained symbolic number (or removed, or wrong-typed, or an enum spelled in another letter case), with '
               'jsonschema.validate replaced by the schema -> constraint translator; asserted: verdict 0 iff every section satisfies its '
               'schema (case-insensitively for the method / arrangement / fluid / flow-type / time-step names).')
OUTSIDE = 'the behaviour of find_design inside the worker (C01-C05); enum strings are enumerated spellings, not symbolic strings.'


def demo_path(name='find_design_rectangle_single_u_tube.json'):
    import ghedesigner
    return os.path.join(os.path.dirname(os.path.dirname(ghedesigner.__file__)), 'demos', name)


# -- (1) exit status ---------------------------------------------------------------------------------------------
def cli_setup():
    import ghedesigner.manager as M

    def find_design(self, throw=True):
        # the four ways the real method can end (contract of GHEManager.find_design and of the search it runs)
        o = CLI.get('design_outcome', 0)
        if o == 1:
            raise ValueError('Search failed.')            # no design in the domain, continue_if_design_unmet not set
        if o == 2:
            raise RuntimeError('numerical failure')
        if o == 3:
            return 1                                       # reports failure, no search result stored
        self._search = object()
        return 0

    def prepare_results(self, *a, **k):
        if getattr(self, '_search', None) is None:         # the real method hands self._search to OutputManager, which dereferences it
            raise AttributeError("'NoneType' object has no attribute 'ghe'")
    shadow(M.GHEManager, 'find_design', find_design)
    shadow(M.GHEManager, 'prepare_results', prepare_results)

    def wrote(self, output_directory, output_file_suffix=''):
        CLI['outputs_written'] = True
    shadow(M.GHEManager, 'write_output_files', wrote)
    shadow(M.GHEManager, 'set_design', lambda self, *a, **k: 0)
    shadow(M, 'print', lambda *a, **k: None)


CLI = {}


def run_cli(M, args):
    """process exit status of `ghedesigner <args>` through click's own entry point"""
    CLI['outputs_written'] = False
    try:
        M.run_manager_from_cli.main(args=list(args), standalone_mode=True, prog_name='ghedesigner')
        return 0
    except SystemExit as ex:
        c = ex.code
        return 0 if c is None else c
    except Exception:  # noqa: BLE001 - an uncaught exception ends the process with status 1
        return 1


def cli_fn(scenario):
    def fn(e):
        import ghedesigner.manager as M
        n = e.int('n_errors', 0, 9)
        idf_fails = e.boolean('idf_fails')
        plain_run = scenario.get('outdir') and not scenario.get('validate_only') and not scenario.get('convert')
        outcome = e.int('design_outcome', 0, 3).__index__() if plain_run else 0      # forks over the four outcomes
        CLI['design_outcome'] = outcome
        shadow(M, 'validate_input_file', lambda p: n)

        def fake_idf(path):
            if idf_fails:
                raise ValueError('conversion failed')
        shadow(M, 'write_idf', fake_idf)
        args = [demo_path()]
        if scenario.get('outdir'):
            args.append('/dev/shm/c18_out_never_written')
        if scenario.get('validate_only'):
            args.append('--validate-only')
        if scenario.get('convert'):
            args += ['--convert', scenario['convert']]
        code = run_cli(M, args)
        wrote = CLI['outputs_written']
        ok_code = (code == 0)
        if scenario.get('validate_only'):
            expected_zero = (n == 0)
        elif scenario.get('convert') == 'IDF':
            expected_zero = ~idf_fails
        elif scenario.get('convert'):
            expected_zero = False
        elif not scenario.get('outdir'):
            expected_zero = False
        else:
            expected_zero = (n == 0) if outcome == 0 else False       # no design / failure: non-zero
        cs = [ok_code == expected_zero] if isinstance(expected_zero, SymBool) or isinstance(ok_code, SymBool) else [bool(ok_code) == bool(expected_zero)]
        # exit 0 without --validate-only / --convert only if the outputs were written
        if not scenario.get('validate_only') and not scenario.get('convert'):
            cs.append(implies_(ok_code, wrote))
        return conj(cs)
    return fn


def implies_(a, b):
    if isinstance(a, SymBool):
        return a.implies(b)
    return (not a) or bool(b)


def cli_replay(scenario):
    def replay(model, notes):
        """native: a real subprocess `python -m ghedesigner.manager` on a real (valid or corrupted) input file"""
        restore_shadows()
        import subprocess
        import sys
        n = int(model.get('n_errors', 0))
        outcome = int(model.get('design_outcome', 0))
        inst = json.load(open(demo_path()))
        if n > 0:
            inst['grout']['conductivity'] = -1.0
        plain_run = scenario.get('outdir') and not scenario.get('validate_only') and not scenario.get('convert')
        if plain_run and n == 0 and outcome in (2, 3):
            return None, 'outcome %d of find_design cannot be provoked through a real input file' % outcome
        if plain_run and n == 0 and outcome == 1:
            # a valid file whose design problem has no solution: tiny lot, loads far too small for the smallest field
            inst = json.load(open(demo_path('find_design_near_square_single_u_tube.json')))
            inst['geometric_constraints']['length'] = 20
            inst['loads']['ground_loads'] = [x * 1.0e-3 for x in inst['loads']['ground_loads']]
            inst['simulation'].pop('continue_if_design_unmet', None)
        tmp = tempfile.mkdtemp(prefix='c18_', dir='/dev/shm' if os.path.isdir('/dev/shm') else None)
        try:
            f = Path(tmp) / 'in.json'
            f.write_text(json.dumps(inst))
            if plain_run and n == 0 and outcome == 0:
                return None, 'a full successful design run is outside this replay (valid input, outputs requested)'
            args = [sys.executable, '-c', 'import sys; from ghedesigner.manager import run_manager_from_cli; sys.exit(run_manager_from_cli())', str(f)]
            if scenario.get('outdir'):
                args.append(str(Path(tmp) / 'out'))
            if scenario.get('validate_only'):
                args.append('--validate-only')
            if scenario.get('convert'):
                args += ['--convert', scenario['convert']]
            p = subprocess.run(args, capture_output=True, text=True, timeout=600, env=dict(os.environ))
            code = p.returncode
            if scenario.get('validate_only'):
                exp_zero = n == 0
            elif scenario.get('convert') == 'IDF':
                exp_zero = False          # the input file is not a summary file: the conversion fails
            elif scenario.get('convert') or not scenario.get('outdir'):
                exp_zero = False
            else:
                exp_zero = n == 0 and outcome == 0
            return (code == 0) != exp_zero, dict(exit_status=code, expected_zero=exp_zero, stderr=p.stderr[-200:], args=args[3:])
        finally:
            import shutil
            shutil.rmtree(tmp, ignore_errors=True)
    return replay


# -- (2) validation verdict ----------------------------------------------------------------------------------------
def val_setup():
    import jsonschema

    import ghedesigner.validate as VAL

    def sym_validate(instance, schema):
        if not bool(JS.holds(schema, instance)):
            raise jsonschema.ValidationError('schema violated')
    shadow(VAL, 'validate', sym_validate)
    shadow(VAL, 'print', lambda *a, **k: None)


def mutate(inst, sec, key, how, e=None, model=None):
    inst = copy.deepcopy(inst)
    if sec == '<top>':
        # top-level keys without a section validator of their own (only the file-structure schema sees them)
        if how == 'missing':
            inst.pop(key, None)
        elif how == 'number':
            inst[key] = 1.5
        elif how == 'list':
            inst[key] = [1, 2]
        elif how == 'symbolic':
            inst[key] = e.real('x', -1.0e7, 1.0e7) if e is not None else float(model['x'])
        return inst
    if how == 'symbolic':
        inst[sec][key] = e.real('x', -1.0e7, 1.0e7) if e is not None else float(model['x'])
    elif how == 'missing':
        inst[sec].pop(key, None)
    elif how == 'string':
        inst[sec][key] = 'abc'
    elif how == 'null':
        inst[sec][key] = None
    elif how == 'bool':
        inst[sec][key] = True
    elif how.startswith('value:'):
        inst[sec][key] = how[6:]
    return inst


def val_fn(demo, sec, key, how, twin=False):
    def fn(e):
        import ghedesigner.validate as VAL
        inst = mutate(json.load(open(demo_path(demo))), sec, key, how, e=e)
        shadow(VAL, 'loads', lambda text: copy.deepcopy(inst) if text == '' else json.loads(text))
        try:
            got = VAL.validate_input_file(NS(read_text=lambda: ''))
        except KeyError as ex:
            # a missing enum-like key makes the validator raise KeyError before it can count: not a verdict
            e.notes['keyerror'] = str(ex)
            return how == 'missing' and key in ('fluid_name', 'arrangement', 'method', 'flow_type')
        if twin:
            return False
        verdicts = JS.section_verdicts(inst)
        all_ok = conj([verdicts[k] for k in sorted(verdicts)])
        n_bad = 0
        for k in sorted(verdicts):
            vk = verdicts[k]
            n_bad = n_bad + (ite(vk, 0, 1) if isinstance(vk, SymBool) else (0 if vk else 1))
        zero = (got == 0)
        cs = [(zero == all_ok) if isinstance(zero, SymBool) or isinstance(all_ok, SymBool) else bool(zero) == bool(all_ok), got == n_bad]
        return conj(cs)
    return fn


def val_replay(demo, sec, key, how):
    def replay(model, notes):
        """native: the real validate_input_file with the real jsonschema on a temp file; oracle = real jsonschema per section"""
        restore_shadows()
        import contextlib
        import io

        import jsonschema
        from ghedesigner.validate import validate_input_file
        inst = mutate(json.load(open(demo_path(demo))), sec, key, how, model=model)
        tmp = tempfile.mkdtemp(prefix='c18v_', dir='/dev/shm' if os.path.isdir('/dev/shm') else None)
        try:
            f = Path(tmp) / 'in.json'
            f.write_text(json.dumps(inst))
            try:
                with contextlib.redirect_stderr(io.StringIO()):
                    got = validate_input_file(f)
            except KeyError:
                return False, 'KeyError (missing enum-like key)'
            mine = JS.section_verdicts(inst)
            exp_bad = sum(0 if bool(v) else 1 for v in mine.values())
            return (got == 0) != (exp_bad == 0) or got != exp_bad, dict(validator_errors=got, sections_failing=[k for k, v in mine.items() if not bool(v)],
                                                                        value=(inst.get(key, '<missing>') if sec == '<top>' else inst[sec].get(key)))
        finally:
            import shutil
            shutil.rmtree(tmp, ignore_errors=True)
    return replay


def units(tier, seed):
    import random
    rnd = random.Random(seed)
    F1 = ['manager.py:run_manager_from_cli', 'manager.py:_run_manager_from_cli_worker']
    F2 = ['validate.py:validate_input_file', 'validate.py:validate_fluid', 'validate.py:validate_grout', 'validate.py:validate_soil', 'validate.py:validate_pipe',
          'validate.py:validate_borehole', 'validate.py:validate_simulation', 'validate.py:validate_geometric', 'validate.py:validate_design',
          'validate.py:validate_file_structure', 'validate.py:validate_schema_instance']
    us = []
    scenarios = [dict(outdir=True), dict(outdir=False), dict(outdir=True, validate_only=True), dict(outdir=False, validate_only=True),
                 dict(outdir=False, convert='IDF'), dict(outdir=True, convert='XYZ'), dict(outdir=False, convert='idf')]
    for sc in scenarios:
        nm = 'cli_' + '_'.join('%s-%s' % (k, v) for k, v in sorted(sc.items()))
        us.append(Unit(nm, cli_fn(sc), cli_replay(sc), cli_setup, F1, 'options %s; number of validation errors a symbolic Int 0..9; conversion success symbolic' % sc,
                       stubs=['validate_input_file -> symbolic error count (its own correctness: units val_*)', 'find_design / prepare_results / write_output_files -> recorders',
                              'write_idf -> succeeds or raises (symbolic)'], max_seconds=600))
    demos = ['find_design_rectangle_single_u_tube.json', 'find_design_near_square_coaxial.json', 'find_design_rowwise_single_u_tube.json',
             'find_design_bi_rectangle_constrained_single_u_tube.json']
    numeric = [('grout', 'conductivity'), ('grout', 'rho_cp'), ('soil', 'undisturbed_temp'), ('fluid', 'concentration_percent'), ('borehole', 'buried_depth'),
               ('borehole', 'diameter'), ('simulation', 'num_months'), ('design', 'flow_rate'), ('design', 'max_eft'), ('geometric_constraints', 'max_height'),
               ('geometric_constraints', 'b_min'), ('pipe', 'roughness'), ('pipe', 'rho_cp')]
    enums = [('fluid', 'fluid_name', ['water', 'Water', 'WATER', 'wAtEr', 'steam', 'PropyleneGlycol']), ('design', 'flow_type', ['system', 'SYSTEM', 'Borehole', 'pipe']),
             ('simulation', 'timestep', ['hybrid', 'Hourly', 'HYBRID', 'daily']), ('pipe', 'arrangement', ['singleutube', 'SingleUTube', 'tripleutube']),
             ('geometric_constraints', 'method', ['rectangle', 'Rectangle', 'hexagon'])]
    for di, demo in enumerate(demos if tier == 'thorough' else demos[:2]):
        inst = json.load(open(demo_path(demo)))
        for sec, key in numeric:
            if key not in inst.get(sec, {}):
                continue
            hows = ['symbolic', 'missing', 'string', 'null', 'bool'] if tier == 'thorough' or di == 0 else ['symbolic']
            for how in hows:
                us.append(Unit('val_%d_%s_%s_%s' % (di, sec, key, how), val_fn(demo, sec, key, how), val_replay(demo, sec, key, how), val_setup, F2,
                               'demo %s with %s.%s %s' % (demo, sec, key, 'an unconstrained symbolic real in [-1e7, 1e7]' if how == 'symbolic' else how),
                               stubs=['jsonschema.validate -> schema-to-constraint translator (regenerated from the schema files)'], max_seconds=300))
        if di == 0 or tier == 'thorough':
            for sec, key, spellings in enums:
                for sp in spellings:
                    if sec == 'pipe' and 'coaxial' in demo:
                        continue
                    us.append(Unit('val_%d_%s_%s_%s' % (di, sec, key, sp), val_fn(demo, sec, key, 'value:' + sp), val_replay(demo, sec, key, 'value:' + sp), val_setup, F2,
                                   'demo %s with %s.%s spelled %r' % (demo, sec, key, sp), stubs=['jsonschema.validate -> translator'], max_seconds=300))
                us.append(Unit('val_%d_%s_%s_missing' % (di, sec, key), val_fn(demo, sec, key, 'missing'), val_replay(demo, sec, key, 'missing'), val_setup, F2,
                               'demo %s without %s.%s' % (demo, sec, key), stubs=['jsonschema.validate -> translator'], max_seconds=300))
    # every numeric key of the geometric-constraint and pipe sections of every design method / pipe type (one demo each): the
    # method-specific schemas (RowWise, bi-zoned, constrained, coaxial, double U) are selected by an enum-like field of the same section
    family = ['find_design_near_square_double_u_tube.json', 'find_design_rectangle_coaxial.json', 'find_design_bi_rectangle_double_u_tube_series.json',
              'find_design_bi_zoned_rectangle_single_u_tube.json', 'find_design_bi_rectangle_constrained_single_u_tube.json', 'find_design_rowwise_single_u_tube.json']
    for demo in family:
        inst = json.load(open(demo_path(demo)))
        short = demo[len('find_design_'):-len('.json')]
        for sec in ('geometric_constraints', 'pipe', 'design', 'borehole'):
            for key, val in sorted(inst.get(sec, {}).items()):
                if isinstance(val, bool) or not isinstance(val, (int, float)):
                    continue
                hows = ['symbolic', 'missing', 'string'] if tier == 'thorough' else ['symbolic']
                for how in hows:
                    us.append(Unit('fam_%s_%s_%s_%s' % (short, sec, key, how), val_fn(demo, sec, key, how), val_replay(demo, sec, key, how), val_setup, F2,
                                   'demo %s with %s.%s %s' % (demo, sec, key, 'an unconstrained symbolic real in [-1e7, 1e7]' if how == 'symbolic' else how),
                                   stubs=['jsonschema.validate -> schema-to-constraint translator (regenerated from the schema files)'], max_seconds=300))
    for key in ('version', 'loads'):
        for how in ('missing', 'number', 'list', 'symbolic'):
            us.append(Unit('val_top_%s_%s' % (key, how), val_fn(demos[0], '<top>', key, how), val_replay(demos[0], '<top>', key, how), val_setup, F2,
                           'demo %s with top-level %s %s' % (demos[0], key, how), stubs=['jsonschema.validate -> translator'], max_seconds=300))
    us.append(Unit('twin_reachability', val_fn(demos[0], 'grout', 'conductivity', 'symbolic', twin=True), None, val_setup, F2, 'assert False must be violated', expect_cex=True))
    return us
