"""C12 - reported results are self-consistent and describe the returned design."""
from . import search_props as SP

PROPERTY = 'C12'
EXPLANATION = ('Same runs as C01 with the assertions on the live object state the summary is built from: nbh == len(bore_locations) == '
               'size of the selected field; the temperatures held by the GHE object after find_design were computed at the final height '
               '(height tag of the last simulate() within 1e-3 m) for the final field, in all outcomes (root, clamped at min, clamped at '
               'max, unmet-continued); every searchTracker row satisfies excess = max(maxEFT-upper, lower-minEFT). A second unit runs the '
               'real OutputManager.get_summary_object on a light design object with symbolic values.')
OUTSIDE = 'number-to-text formatting of the summary (which value goes under which label is decided: summary_text_* units); the monthly temperature table.'
KEYS = ['c12_count', 'c12_eft_height', 'c12_log']


def units(tier, seed):
    return SP.all_units(PROPERTY, KEYS, tier) + SP.rowwise_units(KEYS, tier)


# -- real OutputManager.get_summary_object on a light design object ------------------------------------
def _summary_setup():
    import ghedesigner.output as O
    from symx import sym_floor, sym_float, sym_int
    from symx.runner import shadow
    shadow(O, 'floor', sym_floor)
    shadow(O, 'int', sym_int)


def _design(vals, n_bh, k_steps):
    from types import SimpleNamespace as NS
    H = vals('H')
    coords = [(vals('x%d' % i), vals('y%d' % i)) for i in range(n_bh)]
    eft = [vals('eft%d' % i) for i in range(k_steps)]
    dtb = [vals('dtb%d' % i) for i in range(k_steps)]
    times = [100.0 + 700.0 * i for i in range(k_steps)]
    lt = [-8.5, -7.8, -7.2]
    gf = NS(g_lts={100.0: [1.0, 2.0, 3.0]}, log_time=lt, bore_locations=coords,
            g_function_interpolation=lambda b_over_h: ([1.0, 2.0, 3.0], 0.075, 2.0, 100.0))
    fluid = NS(rhoCp=4.1e6, k=0.6, dynamic_viscosity=lambda: 1e-3, fluid=NS(fluid_name='WATER'), rho=998.0, mu=1e-3)
    pipe = NS(r_out=0.0133, r_in=0.0108, s=0.03, roughness=1e-6, k=0.4, rhoCp=1.5e6)
    bhe = NS(b=NS(H=H, r_b=0.075, D=2.0), pipe=pipe, grout=NS(k=1.0, rhoCp=3.9e6), soil=NS(k=2.0, rhoCp=2.3e6, ugt=18.3),
             fluid=fluid, m_flow_borehole=0.3, calc_effective_borehole_resistance=lambda: 0.13, h_f=1500.0)
    hl = NS(monthly_cl=[0] + [1.0] * 12, monthly_hl=[0] + [2.0] * 12, monthly_peak_hl=[0] + [3.0] * 12,
            monthly_peak_hl_duration=[0] + [4.0] * 12, monthly_peak_cl=[0] + [5.0] * 12, monthly_peak_cl_duration=[0] + [6.0] * 12)
    sp = NS(start_month=1, end_month=12, max_EFT_allowable=35.0, min_EFT_allowable=5.0, max_height=135.0, min_height=60.0)
    ghe = NS(gFunction=gf, bhe=bhe, B_spacing=5.0, fieldType='t', fieldSpecifier='s', sim_params=sp, hybrid_load=hl,
             times=times, dTb=dtb, hp_eft=eft, nbh=n_bh)
    return NS(ghe=ghe, searchTracker=[['f', 1.0, 2.0, 3.0]]), H, coords, eft


def _summary(vals, n_bh, k_steps):
    from ghedesigner.enums import TimestepType
    from ghedesigner.output import OutputManager
    design, H, coords, eft = _design(vals, n_bh, k_steps)
    om = OutputManager.__new__(OutputManager)
    d = om.get_summary_object(design, 1.0, 'p', 'n', 'a', 'm', TimestepType.HYBRID)
    gs, sr = d['ghe_system'], d['simulation_results']
    checks = [gs['number_of_boreholes'] == n_bh, gs['total_drilling']['value'] == H * n_bh,
              gs['active_borehole_length']['value'] == H]
    mx, mn = sr['max_hp_eft']['value'], sr['min_hp_eft']['value']
    from .search_common import conj, disj
    checks += [mx >= v for v in eft] + [mn <= v for v in eft]
    checks += [disj([mx == v for v in eft]), disj([mn == v for v in eft])]
    return conj(checks)


def summary_prop(n_bh, k_steps):
    def fn(e):
        def vals(name):
            if name == 'H':
                return e.real('H', 20, 400)
            return e.real(name, -50, 150)
        return _summary(vals, n_bh, k_steps)
    return fn


def summary_replay(n_bh, k_steps):
    def replay(model, notes):
        from symx.runner import restore_shadows
        restore_shadows()
        ok = _summary(lambda name: float(model[name]), n_bh, k_steps)
        return not bool(ok), dict(model=model)
    return replay


# -- real OutputManager.get_summary_text: which value is written under which label -------------------------------
TEXT_ROWS = {'Active Borehole Length, m:': '.0f', 'Total Drilling, m:': '.0f', 'NBH:': '.0f', 'Max HP EFT, C:': '.3f', 'Min HP EFT, C:': '.3f',
             'Borehole Depth, m:': '.2f', 'Borehole Spacing, m:': '.3f'}


def _text_expected(H, n_bh, eft, mx, mn):
    return {'Active Borehole Length, m:': H, 'Total Drilling, m:': H * n_bh, 'NBH:': n_bh, 'Max HP EFT, C:': mx, 'Min HP EFT, C:': mn,
            'Borehole Depth, m:': 2.0, 'Borehole Spacing, m:': 5.0}


def _summary_text_setup():
    import ghedesigner.output as O
    from symx.runner import shadow
    _summary_setup()
    rows = []
    tables = []
    shadow(O.OutputManager, 'd_row', staticmethod(lambda width, label, value, fmt, n_tabs=0: rows.append((label, value, fmt)) or ''))
    shadow(O.OutputManager, 'create_table', staticmethod(lambda title, heads, data, width, fmts, **kw: tables.append((title, data)) or ''))
    _summary_text_setup.rows, _summary_text_setup.tables = rows, tables


def summary_text_prop(n_bh, k_steps):
    def fn(e):
        from ghedesigner.enums import TimestepType
        from ghedesigner.output import OutputManager
        from .search_common import conj, disj

        def vals(name):
            return e.real('H', 20, 400) if name == 'H' else e.real(name, -50, 150)
        rows, tables = _summary_text_setup.rows, _summary_text_setup.tables
        del rows[:], tables[:]
        design, H, coords, eft = _design(vals, n_bh, k_steps)
        om = OutputManager.__new__(OutputManager)
        om.get_summary_text(80, 'p', 'n', 'notes', 'a', 1.0, design, TimestepType.HYBRID)
        got = {}
        for label, value, fmt in rows:
            if label in TEXT_ROWS:
                if label in got:
                    return False                       # a label of the design written twice
                got[label] = (value, fmt)
        if set(got) != set(TEXT_ROWS):
            return False
        mx, mn = got['Max HP EFT, C:'][0], got['Min HP EFT, C:'][0]
        exp = _text_expected(H, n_bh, eft, mx, mn)
        cs = [got[k][0] == exp[k] for k in sorted(TEXT_ROWS)] + [got[k][1] == TEXT_ROWS[k] for k in sorted(TEXT_ROWS)]
        cs += [mx >= v for v in eft] + [mn <= v for v in eft] + [disj([mx == v for v in eft]), disj([mn == v for v in eft])]
        log = [t for t in tables if t[0] == 'Field Search Log']
        cs.append(len(log) == 1 and log[0][1] is design.searchTracker)
        return conj(cs)
    return fn


def summary_text_replay(n_bh, k_steps):
    def replay(model, notes):
        """native: the real text is produced and parsed; every labelled number must be the expected value in the documented format"""
        from symx.runner import restore_shadows
        restore_shadows()
        from ghedesigner.enums import TimestepType
        from ghedesigner.output import OutputManager
        design, H, coords, eft = _design(lambda name: float(model.get(name, 0.0)), n_bh, k_steps)
        om = OutputManager.__new__(OutputManager)
        text = om.get_summary_text(80, 'p', 'n', 'notes', 'a', 1.0, design, TimestepType.HYBRID)
        exp = _text_expected(H, n_bh, eft, max(eft), min(eft))
        bad = {}
        for line in text.splitlines():
            for label, fmt in TEXT_ROWS.items():
                if line.strip().startswith(label):
                    shown = line.strip()[len(label):].strip()
                    if shown != format(exp[label], fmt):
                        bad[label] = dict(shown=shown, expected=format(exp[label], fmt))
        return bool(bad), dict(mismatching_rows=bad, H=H, boreholes=n_bh)
    return replay


_units_search = units


def units(tier, seed):  # noqa: F811
    from symx.runner import Unit
    us = _units_search(tier, seed)
    for n_bh, k in ([(3, 3)] if tier == 'quick' else [(3, 3), (1, 4), (6, 2)]):
        us.append(Unit('summary_object_%dbh_%dsteps' % (n_bh, k), summary_prop(n_bh, k), summary_replay(n_bh, k), _summary_setup,
                       ['output.py:OutputManager.get_summary_object', 'output.py:OutputManager.hours_to_month'],
                       '%d boreholes with symbolic coordinates, height in [20,400], %d symbolic temperatures' % (n_bh, k),
                       stubs=['design object: light namespace carrying symbolic H, coordinates, hp_eft, dTb']))
    for n_bh, k in ([(3, 3)] if tier == 'quick' else [(3, 3), (1, 4), (6, 2)]):
        us.append(Unit('summary_text_%dbh_%dsteps' % (n_bh, k), summary_text_prop(n_bh, k), summary_text_replay(n_bh, k), _summary_text_setup,
                       ['output.py:OutputManager.get_summary_text', 'output.py:OutputManager.hours_to_month'],
                       '%d boreholes with symbolic coordinates, height in [20,400], %d symbolic temperatures; the value handed to the row formatter under each label' % (n_bh, k),
                       stubs=['design object: light namespace carrying symbolic H, coordinates, hp_eft, dTb', 'OutputManager.d_row / create_table -> recorders (number-to-text formatting itself is exercised by the native replay only)']))
    return us
