"""C12 - reported results are self-consistent and describe the returned design."""
from . import search_props as SP

PROPERTY = 'C12'
EXPLANATION = ('Same runs as C01 with the assertions on the live object state the summary is built from: nbh == len(bore_locations) == '
               'size of the selected field; the temperatures held by the GHE object after find_design were computed at the final height '
               '(height tag of the last simulate() within 1e-3 m) for the final field, in all outcomes (root, clamped at min, clamped at '
               'max, unmet-continued); every searchTracker row satisfies excess = max(maxEFT-upper, lower-minEFT). A second unit runs the '
               'real OutputManager.get_summary_object on a light design object with symbolic values.')
OUTSIDE = 'text formatting of the summary; the monthly temperature table.'
KEYS = ['c12_count', 'c12_eft_height', 'c12_log']


def units(tier, seed):
    return SP.all_units(PROPERTY, KEYS, tier) + SP.rowwise_units(KEYS, tier)
