"""C09 - simulated fluid temperatures equal the documented temporal superposition."""
from types import SimpleNamespace as NS

import z3

from symx import *  # noqa: F403
from symx.runner import Unit, restore_shadows, shadow

from .search_common import conj

PROPERTY = 'C09'
EXPLANATION = ('BaseGHE._simulate_detailed, GHE.simulate (hybrid and hourly branches) and BaseGHE.cost run on symbolic loads, strictly '
               'increasing symbolic times, symbolic H, k, T_g, R_b*, m_dot, c_p, t_s and a symbolic borehole count N; g and ln are '
               'uninterpreted functions. Asserted: every returned hp_eft[n] equals the formula of the property statement written '
               'independently (kW->W and hours->seconds included through GHE.simulate), zero load returns T_g, scaling and T_g shift '
               'are linear, cost = max(over, under); hourly branch: load vector and time axis have equal length 730*n_months and the '
               'axis is 1..n_hours regardless of earlier simulate() calls.')
OUTSIDE = 'correctness of g itself (C10/C11); more load steps than the stated bound (the loop body is the same for every step).'

GF = z3.Function('GF', z3.RealSort(), z3.RealSort())
TWO_PI = 6.283185307179586


import numpy as _np


def _obj(x):
    a = _np.empty(len(x), dtype=object)
    for i, v in enumerate(x):
        a[i] = v
    return a


class FakeNP:
    """numpy facade: real numpy on object-dtype arrays (so z3 proxies survive slicing, broadcasting, dot, hstack ...);
    anything not overridden here is numpy's own function."""
    ndarray = _np.ndarray

    def __getattr__(self, name):
        return getattr(_np, name)

    @staticmethod
    def hstack(x):
        parts = []
        for p in (x if isinstance(x, (tuple, list)) else [x]):
            if isinstance(p, _np.ndarray):
                parts.extend(list(p))
            elif isinstance(p, (list, tuple)):
                parts.extend(p)
            else:
                parts.append(p)
        return _obj(parts)

    @staticmethod
    def log(a):
        if isinstance(a, _np.ndarray):
            return _obj([sym_log(v) for v in a])
        return sym_log(a)

    @staticmethod
    def array(x, dtype=None):
        return _obj(list(x))

    @staticmethod
    def arange(a, b=None, step=1):
        if b is None:
            a, b = 0, a
        return _obj(list(sym_range(a, b, step)))

    @staticmethod
    def zeros(n, dtype=None):
        return _obj([0.0] * int(n))


def VArr(x):
    return _obj(list(x))


def gfun(a):
    return VArr([Sym(GF(lift(v) if lift(v).sort() == z3.RealSort() else z3.ToReal(lift(v)))) for v in a])


def setup():
    import ghedesigner.ground_heat_exchangers as G
    shadow(G, 'np', FakeNP())
    shadow(G, 'float', sym_float)
    shadow(G, 'max', sym_max)
    shadow(G, 'min', sym_min)
    shadow(G, 'int', sym_int)
    shadow(G, 'ceil', sym_ceil)
    shadow(G, 'len', _len)


def _len(x):
    return len(x)


class V:
    def __init__(self, e=None, model=None):
        self.e, self.model = e, model

    def real(self, name, lo=None, hi=None):
        return self.e.real(name, lo, hi) if self.e is not None else float(self.model[name])

    def integer(self, name, lo=None, hi=None):
        return self.e.int(name, lo, hi) if self.e is not None else int(self.model[name])


def make_ghe(v):
    import ghedesigner.ground_heat_exchangers as G
    H, k, tg, rb, m, cp, ts = [v.real(x) for x in 'H k tg rb m cp ts'.split()]
    N = v.integer('N', 1, 400)
    if v.e is not None:
        for x in (H, k, rb, m, cp, ts):
            v.e.assume(x > 0)
    ghe = G.GHE.__new__(G.GHE)
    ghe.nbh = N
    ghe.radial_numerical = NS(t_s=ts, calc_sts_g_functions=lambda b: None)
    ghe.bhe = NS(soil=NS(k=k, ugt=tg), b=NS(H=H), calc_effective_borehole_resistance=lambda: rb, m_flow_borehole=m,
                 fluid=NS(cp=cp), to_single=lambda: None)
    ghe.B_spacing = 5.0
    ghe.times = []
    ghe.sim_params = NS(start_month=1, end_month=12, max_EFT_allowable=35.0, min_EFT_allowable=5.0)
    return ghe, dict(H=H, k=k, tg=tg, rb=rb, m=m, cp=cp, ts=ts, N=N)


def g_native_factory(model):
    """native g: any fixed smooth function works for the replay of an identity"""
    import math
    return lambda a: VArr([2.0 + 0.5 * float(x) + 0.01 * float(x) ** 2 for x in a]), (lambda x: math.log(x))


def expected(p, q_w, t_h, nn, gf, ln):
    """the formula of the property statement, written independently; q in W, t in hours"""
    qq = [0] + list(q_w)
    tt = [0] + list(t_h)
    s = 0
    for i in range(1, nn + 1):
        arg = ((tt[nn] - tt[i - 1]) * 3600) / p['ts']
        s = s + (qq[i] - qq[i - 1]) * gf(ln(arg)) / (TWO_PI * p['k'] * p['H'] * p['N'])
    return p['tg'] + s + qq[nn] * p['rb'] / (p['H'] * p['N']) - qq[nn] / (2 * p['m'] * p['cp'] * p['N'])


def body_detailed(v, n, via_simulate):
    import math
    ghe, p = make_ghe(v)
    q = VArr([v.real('q%d' % i) for i in range(1, n + 1)])       # kW when via_simulate, else W
    t = VArr([v.real('t%d' % i) for i in range(1, n + 1)])
    if v.e is not None:
        prev = 0
        for x in t:
            v.e.assume(x > prev)
            prev = x
        gcall = gfun
        gf = lambda a: Sym(GF(lift(a)))  # noqa: E731
        ln = sym_log
    else:
        gcall = lambda a: VArr([2.0 + 0.5 * float(x) + 0.01 * float(x) ** 2 for x in a])  # noqa: E731
        gf = lambda x: 2.0 + 0.5 * x + 0.01 * x ** 2  # noqa: E731
        ln = math.log
    if via_simulate:
        from ghedesigner.enums import TimestepType
        ghe.hybrid_load = NS(load=VArr([0, 0] + list(q)), hour=VArr([0, 0] + list(t)))
        ghe.grab_g_function = lambda b_over_h: (gcall, None)
        mx, mn = ghe.simulate(TimestepType.HYBRID)
        hp = ghe.hp_eft
        q_w = [x * 1000.0 for x in q]
        extra = [len(ghe.times) == n and len(ghe.loading) == n]
    else:
        hp, dtb = ghe._simulate_detailed(q, t, gcall)
        q_w = list(q)
        extra = [len(dtb) == n]
    checks = [len(hp) == n]
    for nn in range(1, n + 1):
        exp = expected(p, q_w, t, nn, gf, ln)
        if v.e is not None:
            checks.append(sym_equal(hp[nn - 1], exp))
        else:
            checks.append(abs(hp[nn - 1] - exp) <= 1e-9 * (1.0 + abs(exp)))
    return checks + extra


def detailed_fn(n, via_simulate, twin=False):
    def fn(e):
        cs = body_detailed(V(e=e), n, via_simulate)
        return False if twin else conj(cs)
    return fn


def detailed_replay(n, via_simulate):
    def replay(model, notes):
        setup()
        try:
            cs = body_detailed(V(model=model), n, via_simulate)
        finally:
            restore_shadows()
        bad = [k for k, c in enumerate(cs) if not bool(c)]
        return bool(bad), dict(failed=bad[:8])
    return replay


def extremes_fn(n):
    """GHE.simulate returns (max, min) of the temperatures it stores; cost = max(over, under)"""
    def fn(e):
        from ghedesigner.enums import TimestepType
        v = V(e=e)
        ghe, p = make_ghe(v)
        vals = [v.real('T%d' % i) for i in range(n)]
        ghe.hybrid_load = NS(load=VArr([0, 0] + [1.0] * n), hour=VArr([0, 0] + [float(i + 1) for i in range(n)]))
        ghe.grab_g_function = lambda b_over_h: (None, None)
        ghe._simulate_detailed = lambda q, t, g: (list(vals), [0.0] * n)
        mx, mn = ghe.simulate(TimestepType.HYBRID)
        up, lo = v.real('upper'), v.real('lower')
        ghe.sim_params = NS(max_EFT_allowable=up, min_EFT_allowable=lo)
        cs = [mx >= x for x in vals] + [mn <= x for x in vals] + [any_of([mx == x for x in vals]), any_of([mn == x for x in vals])]
        cs.append(ghe.cost(mx, mn) == sym_max(mx - up, lo - mn))
        cs.append(all_of([a == b for a, b in zip(ghe.hp_eft, vals)]))
        return conj(cs)
    return fn


def corollary_fn(n):
    """zero load -> T_g; scaling all loads by c scales the departure; shifting T_g shifts every result"""
    def fn(e):
        v = V(e=e)
        ghe, p = make_ghe(v)
        q = VArr([v.real('q%d' % i) for i in range(1, n + 1)])
        t = VArr([v.real('t%d' % i) for i in range(1, n + 1)])
        prev = 0
        for x in t:
            e.assume(x > prev)
            prev = x
        c = v.real('c')
        d = v.real('dT')
        hp, _ = ghe._simulate_detailed(q, t, gfun)
        hp0, _ = ghe._simulate_detailed(VArr([0.0] * n), t, gfun)
        hpc, _ = ghe._simulate_detailed(VArr([x * c for x in q]), t, gfun)
        ghe.bhe.soil.ugt = p['tg'] + d
        hpd, _ = ghe._simulate_detailed(q, t, gfun)
        cs = []
        for i in range(n):
            cs += [sym_equal(hp0[i], p['tg']), sym_equal(hpc[i] - p['tg'], c * (hp[i] - p['tg'])), sym_equal(hpd[i], hp[i] + d)]
        return conj(cs)
    return fn


def sign_fn(e):
    """one constant load step: rejection raises, extraction lowers, when g >= 0 and R_b* - H/(2 m cp) >= 0"""
    v = V(e=e)
    ghe, p = make_ghe(v)
    q1 = v.real('q1')
    t1 = v.real('t1')
    e.assume(t1 > 0)
    hp, _ = ghe._simulate_detailed(VArr([q1]), VArr([t1]), gfun)
    garg = sym_log((t1 * 3600) / p['ts'])
    e.assume(Sym(GF(lift(garg))) >= 0)
    e.assume(p['rb'] * 2 * p['m'] * p['cp'] >= p['H'])
    d = hp[0] - p['tg']
    return conj([implies_(q1 > 0, d >= 0), implies_(q1 < 0, d <= 0)])


def sym_equal(a, b):
    """a == b, decided syntactically when the sum-of-monomials normal form of a - b is 0"""
    d = z3.simplify(toreal(lift(a)) - toreal(lift(b)), som=True)
    if z3.is_rational_value(d) and d.as_fraction() == 0:
        return True
    return SymBool(d == 0)


def implies_(a, b):
    return a.implies(b)


# -- hourly branch: lengths of the load vector and the time axis --------------------------------------------
def hourly_body(v, history):
    from ghedesigner.enums import TimestepType
    ghe, p = make_ghe(v)
    nm = v.integer('n_months', 1, 360)
    ghe.sim_params.end_month = nm
    ghe.hourly_extraction_ground_loads = [0.0] * 8760
    rec = {}

    def fake_detailed(q_dot, time_values, g):
        rec['nq'] = len(q_dot)
        rec['nt'] = len(time_values)
        rec['t0'] = time_values[0] if len(time_values) else None
        rec['t1'] = time_values[len(time_values) - 1] if len(time_values) else None
        if len(q_dot) > len(time_values):
            raise IndexError('index %d is out of bounds for axis 0 with size %d' % (len(time_values), len(time_values)))
        return [0.0], [0.0]
    ghe._simulate_detailed = fake_detailed
    ghe.grab_g_function = lambda b_over_h: (None, None)
    if history == 'after_hybrid':
        ghe.hybrid_load = NS(load=VArr([0, 0, 1.0, 2.0]), hour=VArr([0, 0, 744.0, 1416.0]))
        ghe.simulate(TimestepType.HYBRID)
    elif history == 'after_hourly_longer':
        ghe.sim_params.end_month = 360
        ghe.simulate(TimestepType.HOURLY)
        ghe.sim_params.end_month = nm
    ghe.simulate(TimestepType.HOURLY)
    # load vector and time axis agree, the axis is 1..n, and it covers at least the requested horizon (730 h per month)
    return [rec['nq'] == rec['nt'], rec['t0'] == 1, rec['t1'] == rec['nt'], rec['nt'] >= nm * 730, rec['nt'] < nm * 730 + 8760]


def hourly_values_body(v, history, max_months):
    """GHE.simulate(HOURLY): what reaches the superposition sum.  The identity itself is decided for _simulate_detailed (detailed_n*); here
    the load vector handed to it must be the *rejection-positive* hourly load in W (minus the extraction load of that hour of the year,
    year after year) on the axis 1, 2, ... hours, and the stored results must be what it returned."""
    from ghedesigner.enums import TimestepType
    ghe, p = make_ghe(v)
    nm = v.integer('n_months', 1, max_months)
    ghe.sim_params.end_month = nm
    sym_at = {0: v.real('q_first', -1e5, 1e5), 1: v.real('q_second', -1e5, 1e5), 743: v.real('q_h743', -1e5, 1e5), 8759: v.real('q_last', -1e5, 1e5)}
    loads = [float((h * 7) % 13 - 6) * 100.0 for h in range(8760)]
    for j, q in sym_at.items():
        loads[j] = q
    given = list(loads)
    ghe.hourly_extraction_ground_loads = loads
    rec = {}
    ret = ([v.real('eft_a', -50, 150), v.real('eft_b', -50, 150)], [v.real('dtb_a', -50, 50), v.real('dtb_b', -50, 50)])

    def fake_detailed(q_dot, time_values, g):
        rec['q'], rec['t'] = list(q_dot), list(time_values)
        return ret
    ghe._simulate_detailed = fake_detailed
    ghe.grab_g_function = lambda b_over_h: (None, None)
    if history == 'after_hybrid':
        ghe.hybrid_load = NS(load=VArr([0, 0, 1.0, 2.0]), hour=VArr([0, 0, 744.0, 1416.0]))
        ghe.simulate(TimestepType.HYBRID)
    out = ghe.simulate(TimestepType.HOURLY)
    q, t = rec['q'], rec['t']
    cs = [len(q) == len(t), len(q) >= nm * 730]
    idx = set(range(0, len(q), 97)) | {i for i in range(len(q)) if i % 8760 in sym_at} | set(range(max(0, len(q) - 3), len(q)))
    for i in sorted(idx):
        cs.append(q[i] == -given[i % 8760])
        cs.append(t[i] == i + 1)
    cs += [ghe.hp_eft is ret[0], ghe.dTb is ret[1], out[0] >= ret[0][0], out[0] >= ret[0][1], out[1] <= ret[0][0], out[1] <= ret[0][1]]
    cs.append(len(ghe.hourly_extraction_ground_loads) >= 8760)
    cs += [ghe.hourly_extraction_ground_loads[j] == given[j] for j in (0, 1, 2, 743, 8759)]
    return cs


def hourly_values_fn(history, max_months):
    def fn(e):
        return conj(hourly_values_body(V(e=e), history, max_months))
    return fn


def hourly_values_replay(history, max_months):
    def replay(model, notes):
        setup()
        try:
            try:
                cs = hourly_values_body(V(model=dict(model, H=100.0, k=2.0, tg=18.0, rb=0.1, m=0.3, cp=4000.0, ts=1e8, N=4)), history, max_months)
            except Exception as ex:  # noqa: BLE001
                return True, dict(exception='%s: %s' % (type(ex).__name__, ex))
        finally:
            restore_shadows()
        bad = [k for k, c in enumerate(cs) if not bool(c)]
        return bool(bad), dict(failed_clauses=bad[:10])
    return replay


def hourly_fn(history):
    def fn(e):
        return conj(hourly_body(V(e=e), history))
    return fn


def hourly_replay(history):
    def replay(model, notes):
        setup()
        try:
            try:
                cs = hourly_body(V(model=dict(model, H=100.0, k=2.0, tg=18.0, rb=0.1, m=0.3, cp=4000.0, ts=1e8, N=4)), history)
            except Exception as ex:  # noqa: BLE001
                return True, dict(exception='%s: %s' % (type(ex).__name__, ex))
        finally:
            restore_shadows()
        bad = [k for k, c in enumerate(cs) if not bool(c)]
        return bool(bad), dict(failed=bad)
    return replay


def units(tier, seed):
    F = ['ground_heat_exchangers.py:BaseGHE._simulate_detailed', 'ground_heat_exchangers.py:GHE.simulate',
         'ground_heat_exchangers.py:BaseGHE.cost']
    ST = ['numpy -> exact list facade (hstack, log, dot, slicing)', 'g(.) and ln(.) uninterpreted',
          'grab_g_function, to_single, calc_sts_g_functions -> tokens/no-ops', 'hourly branch: _simulate_detailed -> recorder of its argument lengths']
    AS = ['floats as reals (the identity is exact over the reals; float rounding of the sum is outside)',
          'division by symbolic values modelled with reciprocal variables (inv*f == 1)']
    ns_d = [1, 2, 4, 8] if tier == 'quick' else [1, 2, 3, 4, 6, 8, 12, 16, 24]
    ns_s = [1, 3, 6] if tier == 'quick' else [1, 2, 3, 6, 12, 16]
    us = []
    for n in ns_d:
        us.append(Unit('detailed_n%d' % n, detailed_fn(n, False), detailed_replay(n, False), setup, F[:1],
                       '%d load steps; loads, increasing times, H, k, T_g, R_b*, m_dot, c_p, t_s all reals > 0, N Int 1..400' % n, AS, ST, max_seconds=900))
    for n in ns_s:
        us.append(Unit('simulate_hybrid_n%d' % n, detailed_fn(n, True), detailed_replay(n, True), setup, F,
                       'GHE.simulate(HYBRID) with %d hybrid segments (kW, hours), as above' % n, AS, ST, max_seconds=900))
    for n in ([2, 4] if tier == 'quick' else [1, 2, 4, 8]):
        us.append(Unit('corollaries_n%d' % n, corollary_fn(n), None, setup, F[:1], 'zero load, scaling factor c, T_g shift dT: all reals; %d steps' % n, AS, ST))
    us.append(Unit('sign_single_step', sign_fn, None, setup, F[:1], 'one load step, g >= 0, R_b* >= H/(2 m cp)', AS, ST))
    us.append(Unit('simulate_returns_extremes', extremes_fn(5), None, setup, F[1:], '5 stored temperatures and both limits: all reals', AS,
                   ST + ['_simulate_detailed -> symbolic temperatures (this unit only)']))
    for hist in ('fresh', 'after_hybrid', 'after_hourly_longer'):
        us.append(Unit('hourly_axis_%s' % hist, hourly_fn(hist), hourly_replay(hist), setup, F[1:2],
                       'n_months: every Int 1..360 (forked); history: %s' % hist, AS, ST, max_seconds=1500, max_paths=5000))
    for hist in ('fresh', 'after_hybrid'):
        mm = 30 if tier == 'quick' else 120
        us.append(Unit('hourly_values_%s' % hist, hourly_values_fn(hist, mm), hourly_values_replay(hist, mm), setup, F[1:2],
                       'n_months: every Int 1..%d (forked); extraction loads of hours 0, 1, 743, 8759 of the year all reals in [-1e5, 1e5], the others a concrete profile; history: %s' % (mm, hist),
                       AS, ST + ['hourly branch: _simulate_detailed -> recorder of the load vector and time axis it is handed (the sum itself: detailed_n* units)'],
                       max_seconds=1500, max_paths=5000))
    us.append(Unit('twin_reachability', detailed_fn(2, False, twin=True), None, setup, F[:1], 'assert False must be violated', expect_cex=True))
    return us
