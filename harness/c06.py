"""C06 - hybrid time-step loads conserve every month's ground energy."""
from . import hybrid_common as HC

PROPERTY = 'C06'
EXPLANATION = ('HybridLoad.process_month_loads (L1: monthly table symbolic) and the whole HybridLoad pipeline from a raw 8760-hour '
               'profile with symbolic magnitudes (L2) run symbolically; asserted: for every simulated month the sum of load x '
               'breakpoint difference between consecutive month-end breakpoints equals the month net load (rel 1e-6).')
OUTSIDE = ('peak durations are taken as arbitrary values in (0,48] (C07 cannot establish the bound); multi-year explicit load files '
           '(len(years) > 1); pulses that would start before hour 0 (1 January with a long duration: the code clamps the start).')
KEYS = ['energy']


def units(tier, seed):
    from symx.runner import Unit
    us = HC.l1_units(KEYS, tier, None, pairs=False) + HC.l2_units(KEYS, tier, seed)
    us.append(Unit('twin_reachability', HC.l1_fn(12, (2,), 'mixed', KEYS, twin=True), None, HC.setup, HC.FUNCS_L1,
                   'assert False must be violated', expect_cex=True))
    return us
