"""C05 - design is not oversized: height is a root, drilling minimal among evaluated, predecessor fails."""
from . import search_props as SP

PROPERTY = 'C05'
EXPLANATION = ('The real search classes and GHE.size/solve_root run on free symbolic excess temperatures per (candidate, height); '
               'asserted: final height is a brentq root unless the sign does not change; count*H <= count_j*Hmax for every evaluated '
               'feasible j in calculated_temperatures; predecessor of the selection evaluated and failing; under monotone excess the '
               'first feasible candidate is selected.')
OUTSIDE = ('the numerical values of the excess for real loads (pygfunction, radial model); candidate lists longer than the stated '
           'bounds; RowWise search (not a bisection over a candidate list).')
KEYS = ['c05_root', 'c05_drilling', 'c05_pred', 'c05_first']


def size_method_fn(method_name, twin=False):
    """GHE.size(method): the returned height is a root of the excess of the *requested* simulation method - every objective evaluation
    and the final simulation run that method, and the excess the solver saw at the returned height is the excess of that method
    (real GHE.__init__/size/simulate/cost/solve_root; kernels uninterpreted, hourly and hybrid evaluations told apart by their load vectors)"""
    def fn(e):
        import z3

        from symx import Sym
        from ghedesigner.enums import TimestepType

        from . import c13
        from .search_common import conj
        ghe = c13.mk_ghe(e, 'a')
        calls = []
        inner = ghe._simulate_detailed

        def detailed(q_dot, time_values, g):
            out = inner(q_dot, time_values, g)
            calls.append((len(q_dot), ghe.bhe.b.H, out[0][0]))
            return out
        ghe._simulate_detailed = detailed
        method = getattr(TimestepType, method_name)
        try:
            ghe.size(method)
        except ZeroDivisionError:
            # an excess of exactly 0 at a bracket end divides by zero in solve_root: measure-zero float event (stated in C02/C13 as well)
            from symx import PathAbort
            raise PathAbort() from None
        if twin:
            return False
        n_expected = 17520 if method_name == 'HOURLY' else 3          # 24 months of hours / the stub's three hybrid segments (load[2:])
        cs = [len(calls) >= 3] + [nq == n_expected for nq, _, _ in calls]
        # the stored temperatures are those of the returned height, simulated with the requested method
        nq, h, top = calls[-1]
        cs += [h is ghe.bhe.b.H or h == ghe.bhe.b.H, ghe.hp_eft[0] is top or ghe.hp_eft[0] == top]
        return conj(cs)
    return fn


def units(tier, seed):
    from symx.runner import Unit

    from . import c13
    us = SP.all_units(PROPERTY, KEYS, tier) + SP.rowwise_units(['c05_root'], tier)
    F = ['ground_heat_exchangers.py:GHE.size', 'ground_heat_exchangers.py:GHE.simulate', 'ground_heat_exchangers.py:BaseGHE.cost', 'utilities.py:solve_root']
    for m in ('HOURLY', 'HYBRID'):
        us.append(Unit('size_method_%s' % m, size_method_fn(m), None, c13.ghe_setup, F, 'GHE.size(%s) on a 4-borehole field, 24 months; excess values symbolic through uninterpreted kernels' % m,
                       stubs=['_simulate_detailed -> uninterpreted SIM(H, len(q), len(t), ...)', 'brentq -> arbitrary point of the bracket (objective evaluated there)']))
    return us
