"""C05 - design is not oversized: height is a root, drilling minimal among evaluated, predecessor fails."""
from . import search_props as SP

PROPERTY = 'C05'
EXPLANATION = ('The real search classes and GHE.size/solve_root run on free symbolic excess temperatures per (candidate, height); '
               'asserted: final height is a brentq root unless the sign does not change; count*H <= count_j*Hmax for every evaluated '
               'feasible j in calculated_temperatures; predecessor of the selection evaluated and failing; under monotone excess the '
               'first feasible candidate is selected.')
OUTSIDE = ('the numerical values of the excess for real loads (pygfunction, radial model); candidate lists longer than the stated '
           'bounds; RowWise search (not a bisection over a candidate list).')
KEYS = ['c05_root', 'c05_drilling', 'c05_pred', 'c05_first']


def units(tier, seed):
    return SP.all_units(PROPERTY, KEYS, tier) + SP.rowwise_units(['c05_root'], tier)
