"""C10 - short-time radial g-function: conservative and physically consistent (decidable part)."""
import math
from types import SimpleNamespace as NS

import numpy as real_np
import z3

from symx import *  # noqa: F403
from symx.runner import Unit, restore_shadows, shadow

from .search_common import conj, implies

PROPERTY = 'C10'
EXPLANATION = ('Structural clauses, fully symbolic geometry: RadialNumericalBH.__init__ and fill_radial_cells run on symbolic radii, '
               'conductivities and heat capacities through an object-dtype numpy facade; asserted: the cells tile [r_fluid, 10 m] without '
               'gaps or overlaps with the region boundaries where the model puts them, the fluid cells carry exactly the thermal mass of '
               'the fluid in both legs, and the convection + pipe + grout layers sum to the effective borehole resistance (ln uninterpreted '
               'with the product rule). Dynamic clauses, one inductive step from an arbitrary state: calc_sts_g_functions runs with the '
               'previous temperatures symbolic and LAPACK dgtsv replaced by its contract (the solution satisfies the tridiagonal system); '
               'asserted: energy stored = heat injected minus the flux through the last interface (1e-6 relative), T >= T_init is '
               'preserved, the step is monotone (Ta <= Tb => step(Ta) <= step(Tb)), and g = 2 pi k ((T_fluid - T_init)/q - R_b*). '
               'Induction over steps gives a non-decreasing g, g_bhw >= 0 and g >= -2 pi k R_b*.')
OUTSIDE = ('the 0.5 % agreement with an independent fine-mesh solution, finiteness under float rounding and the accuracy of the 30-point '
           'resampling between samples: numerical facts about a 535-cell, >= 1470-step simulation, not encodable (that the resampled points '
           'are non-decreasing and inside the computed range is claimed: published_points units, interp1d by contract). The dynamic clauses '
           'are proved on reduced meshes (17 cells quick, 17 and 24 thorough; the coefficient code is the same for any cell count) of 12 '
           'concrete boreholes; the production 535-cell mesh is outside the bound (z3 returns unknown at 34 cells, probed).')


class NPF:
    """numpy facade: object dtype so z3 proxies survive; anything else is numpy's own"""
    double = object

    def __getattr__(self, n):
        return getattr(real_np, n)

    def zeros(self, shape=None, dtype=None, **k):
        a = real_np.empty(shape, dtype=object)
        a[...] = 0.0
        return a

    def zeros_like(self, a, **k):
        b = real_np.empty(a.shape, dtype=object)
        b[...] = 0.0
        return b

    def array(self, x, dtype=None):
        if isinstance(x, real_np.ndarray):
            return x.astype(object)
        a = real_np.empty(len(x), dtype=object)
        for i, v in enumerate(x):
            a[i] = v
        return a

    def log(self, a):
        return real_np.frompyfunc(lambda v: sym_log_product(v) if isinstance(v, Sym) else math.log(v), 1, 1)(a)

    def linspace(self, a, b, n):
        if not isinstance(a, Sym) and not isinstance(b, Sym):
            return self.array([float(v) for v in real_np.linspace(float(a), float(b), n)])     # numpy's own points (the end point is exactly b)
        return self.array([a + (b - a) * i / (n - 1) for i in range(n)])


STATE = {}


class FakeInterp:
    def __init__(self, x, y, **k):
        self.x, self.y = list(x), list(y)
        STATE.setdefault('interp', []).append(self)

    def __call__(self, v):
        return real_np.array(self.y[:1] * len(v), dtype=object)


def fake_dgtsv(dl, d, du, b, overwrite_b=0):
    """LAPACK contract: the returned vector solves the tridiagonal system it is given"""
    e = Engine.cur
    n = len(d)
    k = STATE['step']
    STATE.setdefault('b0', []).append(b[0])
    x = [z3.Real('x%d_%d' % (k, i)) for i in range(n)]
    for i in range(n):
        lhs = lift(d[i]) * x[i]
        if i > 0:
            lhs = lhs + lift(dl[i - 1]) * x[i - 1]
        if i < n - 1:
            lhs = lhs + lift(du[i]) * x[i + 1]
        e.add(lhs == lift(b[i]))
    STATE['step'] += 1
    STATE['sol'].append([Sym(v) for v in x])
    STATE['sys'].append((list(dl), list(d), list(du)))
    for i in range(n):
        b[i] = Sym(x[i])
    return None


def setup():
    import ghedesigner.radial_numerical_borehole as R
    shadow(R, 'np', NPF())
    shadow(R, 'interp1d', FakeInterp)
    shadow(R, 'dgtsv', fake_dgtsv)
    shadow(R, 'log', lambda v: sym_log_product(v) if isinstance(v, Sym) else math.log(v))
    shadow(R, 'max', sym_max)


# -- structural clauses with symbolic geometry --------------------------------------------------------------------
class SV:
    def __init__(self, e=None, model=None):
        self.e, self.model = e, model

    def real(self, name, lo=None, hi=None):
        return self.e.real(name, lo, hi) if self.e is not None else float(self.model[name])

    def assume(self, c):
        if self.e is not None:
            self.e.assume(c)

    def eq(self, a, b):
        if self.e is not None:
            return a == b
        return abs(a - b) <= 1e-9 * (abs(a) + abs(b)) + 1e-15

    def log(self, x):
        return sym_log_product(x) if self.e is not None else math.log(x)


def structural_fn(cells, native_model=None, reuse=False):
    def fn(e):
        import ghedesigner.radial_numerical_borehole as R
        v = SV(e=e) if native_model is None else SV(model=native_model)
        e = v
        r_b = e.real('r_b', 0.05, 0.12)
        r_in = e.real('r_in', 0.008, 0.03)
        r_out = e.real('r_out', 0.009, 0.035)
        e.assume(r_out > r_in)
        k_s, c_s = e.real('k_s', 0.5, 5.0), e.real('c_s', 1.0e6, 4.0e6)
        c_f, c_p, c_g = e.real('c_f', 3.0e6, 4.3e6), e.real('c_p', 1.0e6, 2.5e6), e.real('c_g', 1.0e6, 4.5e6)
        H = e.real('H', 20, 400)
        rf, rpg = e.real('R_f_eff', 1e-4, 0.5), e.real('R_pg_eff', 1e-3, 1.0)
        sut = NS(b=NS(r_b=r_b, H=H), pipe=NS(r_out=r_out, r_in=r_in, rhoCp=c_p), soil=NS(k=k_s, rhoCp=c_s), k_s=k_s,
                 fluid=NS(rhoCp=c_f), grout=NS(rhoCp=c_g))
        if reuse:
            # the model was built for another tube of the same geometry (other fluid / pipe / grout / soil properties, other height) and is
            # now asked for this one, as calc_sts_g_functions does through partial_init on every call
            other = NS(b=NS(r_b=r_b, H=e.real('H_prev', 20, 400)), pipe=NS(r_out=r_out, r_in=r_in, rhoCp=e.real('c_p_prev', 1.0e6, 2.5e6)),
                       soil=NS(k=e.real('k_s_prev', 0.5, 5.0), rhoCp=e.real('c_s_prev', 1.0e6, 4.0e6)), k_s=None,
                       fluid=NS(rhoCp=e.real('c_f_prev', 3.0e6, 4.3e6)), grout=NS(rhoCp=e.real('c_g_prev', 1.0e6, 4.5e6)))
            other.k_s = other.soil.k
            rn = R.RadialNumericalBH(other)
            rn.partial_init(sut)
        else:
            rn = R.RadialNumericalBH(sut)
        # valid borehole: the equivalent tube fits and the fluid core has a positive radius
        e.assume((rn.r_fluid > 0) & (rn.r_out_tube < r_b))
        # ln is strictly increasing: lemma instances for the uninterpreted L at the layer boundaries used as denominators
        e.assume(v.log(rn.r_in_tube) > v.log(rn.r_convection))
        e.assume(v.log(r_b) > v.log(rn.r_in_tube))
        if cells is not None:
            (rn.num_fluid_cells, rn.num_conv_cells, rn.num_pipe_cells, rn.num_grout_cells, rn.num_soil_cells) = cells
            rn.num_cells = sum(cells)
            rn.bh_wall_idx = sum(cells[:4])
            rn.thickness_soil_cell = (rn.r_far_field - rn.r_borehole) / rn.num_soil_cells
            rn.thickness_grout_cell = (rn.r_borehole - rn.r_out_tube) / rn.num_grout_cells
            rn.thickness_pipe_cell = (rn.r_out_tube - rn.r_in_tube) / rn.num_pipe_cells
            rn.thickness_conv_cell = (rn.r_in_tube - rn.r_convection) / rn.num_conv_cells
            rn.thickness_fluid_cell = (rn.r_convection - rn.r_fluid) / rn.num_fluid_cells
        rc = rn.fill_radial_cells(rf, rpg)
        P = R.CellProps
        n = rn.num_cells
        cs = [rc.shape[1] == n, n == rn.num_fluid_cells + rn.num_conv_cells + rn.num_pipe_cells + rn.num_grout_cells + rn.num_soil_cells]
        # tiling: no gaps, no overlaps, from the fluid core to the 10 m far field
        cs.append(v.eq(rc[P.R_IN, 0], rn.r_fluid))
        cs.append(v.eq(rc[P.R_OUT, n - 1], 10))
        for i in range(n):
            cs.append(rc[P.R_OUT, i] > rc[P.R_IN, i])
            cs.append(v.eq(rc[P.R_CENTER, i] * 2, rc[P.R_IN, i] + rc[P.R_OUT, i]))
            cs.append(v.eq(rc[P.VOL, i], math.pi * (rc[P.R_OUT, i] * rc[P.R_OUT, i] - rc[P.R_IN, i] * rc[P.R_IN, i])))
            if i + 1 < n:
                cs.append(v.eq(rc[P.R_OUT, i], rc[P.R_IN, i + 1]))
        nf, nc, npi, ng = rn.num_fluid_cells, rn.num_conv_cells, rn.num_pipe_cells, rn.num_grout_cells
        cs += [v.eq(rc[P.R_OUT, nf - 1], rn.r_convection), v.eq(rc[P.R_OUT, nf + nc - 1], rn.r_in_tube), v.eq(rc[P.R_OUT, nf + nc + npi - 1], rn.r_out_tube),
               v.eq(rc[P.R_OUT, nf + nc + npi + ng - 1], r_b), rn.bh_wall_idx == nf + nc + npi + ng]
        # fluid thermal mass: sum over the fluid cells of rho_cp * volume = 2 pi r_in^2 C_f
        mass = 0
        for i in range(nf):
            mass = mass + rc[P.RHO_CP, i] * rc[P.VOL, i]
        cs.append(v.eq(mass, 2 * math.pi * r_in * r_in * c_f))
        # layer resistances between the fluid and the borehole wall sum to R_b* = R_f_eff + R_pg_eff
        res = 0
        for i in range(nf, nf + nc + npi + ng):
            res = res + (v.log(rc[P.R_OUT, i]) - v.log(rc[P.R_IN, i])) / (2 * math.pi * rc[P.K, i])
        cs.append(abs(res - (rf + rpg)) <= 1e-9)
        # material assignment
        cs += [rc[P.RHO_CP, i] == c_p for i in range(nf + nc, nf + nc + npi)]
        cs += [rc[P.RHO_CP, i] == c_g for i in range(nf + nc + npi, nf + nc + npi + ng)]
        cs += [conj([rc[P.RHO_CP, i] == c_s, rc[P.K, i] == k_s]) for i in range(nf + nc + npi + ng, n)]
        cs += [rc[P.TEMP, i] == rn.init_temp for i in range(n)]
        return conj(cs) if native_model is None else cs
    return fn


def structural_replay(cells, reuse=False):
    def replay(model, notes):
        restore_shadows()
        cs = structural_fn(cells, native_model=model, reuse=reuse)(None)
        bad = [k for k, c in enumerate(cs) if not bool(c)]
        return bool(bad), dict(failed_checks=bad[:10], n_checks=len(cs))
    return replay


# -- dynamic clauses: one inductive step on a reduced mesh ---------------------------------------------------------
def borehole(k):
    from ghedesigner.borehole import GHEBorehole
    from ghedesigner.borehole_heat_exchangers import SingleUTube
    from ghedesigner.media import GHEFluid, Grout, Pipe, Soil
    cat = [  # (r_b, r_in, r_out, shank, H, k_grout, k_soil, rhoCp_soil, m_flow, fluid, pct)
        (0.075, 0.0108, 0.0133, 0.0323, 100.0, 1.0, 2.0, 2343493.0, 0.2, 'Water', 0.0),
        (0.05, 0.0108, 0.0133, 0.012, 20.0, 0.6, 0.8, 1.2e6, 0.05, 'Water', 0.0),
        (0.12, 0.0171, 0.0211, 0.06, 400.0, 2.5, 4.5, 3.9e6, 1.0, 'PropyleneGlycol', 30.0),
        (0.07, 0.01365, 0.0167, 0.0185, 135.0, 1.6, 3.0, 2.5e6, 0.5, 'Water', 0.0),
        (0.06, 0.0108, 0.0133, 0.02, 60.0, 0.8, 1.5, 2.0e6, 0.1, 'EthyleneGlycol', 20.0),
        (0.09, 0.0171, 0.0211, 0.03, 250.0, 1.2, 2.2, 2.8e6, 0.7, 'MethylAlcohol', 10.0),
        (0.055, 0.0108, 0.0133, 0.005, 96.0, 1.0, 2.0, 2343493.0, 0.3, 'Water', 0.0),
        (0.1, 0.0135, 0.0167, 0.08, 150.0, 2.0, 1.0, 1.5e6, 0.25, 'EthylAlcohol', 15.0),
        (0.075, 0.0108, 0.0133, 0.0323, 384.0, 0.7, 3.5, 3.0e6, 0.02, 'Water', 0.0),
        (0.08, 0.0171, 0.0211, 0.04, 30.0, 3.0, 0.6, 1.0e6, 1.5, 'Water', 0.0),
        (0.065, 0.0108, 0.0133, 0.025, 200.0, 1.4, 2.6, 2.2e6, 0.4, 'PropyleneGlycol', 50.0),
        (0.11, 0.0171, 0.0211, 0.1, 320.0, 0.9, 1.8, 3.5e6, 0.15, 'Water', 0.0),
    ]
    r_b, r_in, r_out, s, H, kg, ks, cs_, m, fl, pct = cat[k]
    pipe = Pipe(Pipe.place_pipes(s, r_out, 1), r_in, r_out, s, 1e-6, 0.4, 1542000.0)
    bh = GHEBorehole(H, 2.0, r_b, 0.0, 0.0)
    return SingleUTube(m, GHEFluid(fl, pct), bh, pipe, Grout(kg, 3901000.0), Soil(ks, cs_, 18.3))


def run_step(e, sut, cells, T0):
    import ghedesigner.radial_numerical_borehole as R
    rn = R.RadialNumericalBH(sut)
    (rn.num_fluid_cells, rn.num_conv_cells, rn.num_pipe_cells, rn.num_grout_cells, rn.num_soil_cells) = cells
    rn.num_cells = sum(cells)
    rn.bh_wall_idx = sum(cells[:4])
    rn.thickness_soil_cell = (rn.r_far_field - rn.r_borehole) / rn.num_soil_cells
    rn.thickness_grout_cell = (rn.r_borehole - rn.r_out_tube) / rn.num_grout_cells
    rn.thickness_pipe_cell = (rn.r_out_tube - rn.r_in_tube) / rn.num_pipe_cells
    rn.thickness_conv_cell = (rn.r_in_tube - rn.r_convection) / rn.num_conv_cells
    rn.thickness_fluid_cell = (rn.r_convection - rn.r_fluid) / rn.num_fluid_cells
    n = rn.num_cells
    orig_fill = rn.fill_radial_cells
    box = {}

    def fill(a, b):
        rc = orig_fill(a, b)
        for i in range(n):
            rc[R.CellProps.TEMP, i] = T0[i]
        box['rc'] = rc
        return rc
    rn.fill_radial_cells = fill
    STATE['sol'], STATE['sys'], STATE['interp'] = [], [], []
    rn.calc_sts_g_functions(sut, final_time=240.0)
    return rn, box['rc'], STATE['sol'][0], list(STATE['interp'])


def dynamic_fn(k, cells, mode, twin=False):
    def fn(e):
        import ghedesigner.radial_numerical_borehole as R
        STATE['step'] = 0
        sut = borehole(k)
        n = sum(cells)
        T0 = [e.real('T%d' % i, 20, 120) for i in range(n)]
        e.assume(T0[n - 1] == 20)                       # fixed far field
        rn, rc, T1, interps = run_step(e, sut, cells, T0)
        if twin:
            return False
        P = R.CellProps
        dt = 120.0
        if mode == 'energy':
            gain = 0
            for i in range(n - 1):
                gain = gain + float(rc[P.RHO_CP, i]) * float(rc[P.VOL, i]) * (T1[i] - T0[i])
            res = math.log(float(rc[P.R_OUT, n - 2]) / float(rc[P.R_CENTER, n - 2])) / (2 * math.pi * float(rc[P.K, n - 2])) + \
                math.log(float(rc[P.R_CENTER, n - 1]) / float(rc[P.R_IN, n - 1])) / (2 * math.pi * float(rc[P.K, n - 1]))
            outflow = (T1[n - 2] - T1[n - 1]) / res * dt
            return abs(gain - (1.0 * dt - outflow)) <= 1e-6 * dt
        if mode == 'bound':
            cs = [T1[i] >= 20 - 1e-9 for i in range(n)] + [T1[n - 1] == 20]
            # g and g_bhw as computed: 2 pi k ((T_fluid - 20)/q - R_b*), 2 pi k (T_wall - 20)/q  (first interp1d call gets g, second g_bhw)
            rb_eff = sut.calc_effective_borehole_resistance()
            c0 = 2 * math.pi * sut.soil.k
            g_list, gb_list = interps[0].y, interps[1].y
            cs.append(abs(g_list[0] - c0 * ((T1[0] - 20) / 1.0 - rb_eff)) <= 1e-9)
            cs.append(abs(gb_list[0] - c0 * (T1[rn.bh_wall_idx] - 20)) <= 1e-9)
            cs.append(g_list[0] >= -c0 * rb_eff - 1e-8)
            cs.append(gb_list[0] >= -1e-8)
            return conj(cs)
        if mode == 'monotone':
            Tb = [e.real('U%d' % i, 20, 120) for i in range(n)]
            for a, b in zip(T0, Tb):
                e.assume(a <= b)
            e.assume(Tb[n - 1] == 20)
            _, _, T1b, _ = run_step(e, sut, cells, Tb)
            return conj([T1b[i] >= T1[i] - 1e-9 for i in range(n)])
        raise ValueError(mode)
    return fn


class _Enough(Exception):
    pass


class ResampleInterp:
    """scipy.interpolate.interp1d by contract: the default / 'linear' kind returns the convex combination of the two bracketing samples;
    any other kind is an interpolant through the samples about whose values between them nothing is known here"""
    made = []

    def __init__(self, x, y, kind='linear', **k):
        # the samples are replaced by arbitrary reals (a cut: the clause below is about the resampling and holds for any samples, the
        # ones the loop computed included; with the solved cell temperatures inside, z3 gave up on 4 of 12 boreholes)
        self.x, self.kind = [float(v) for v in x], kind
        self.y = [Sym(Engine.cur.fresh('sample')) for _ in y]
        ResampleInterp.made.append(self)

    def __call__(self, v):
        out = []
        for q in v:
            q = float(q)
            if self.kind in (None, 'linear'):
                i = max(j for j in range(len(self.x) - 1) if self.x[j] <= q + 1e-12) if q < self.x[-1] else len(self.x) - 2
                w = (q - self.x[i]) / (self.x[i + 1] - self.x[i])
                out.append(self.y[i] + w * (self.y[i + 1] - self.y[i]))
            else:
                hit = [j for j, xv in enumerate(self.x) if abs(xv - q) < 1e-12]
                out.append(self.y[hit[0]] if hit else Sym(Engine.cur.fresh('interp')))
        return real_np.array(out, dtype=object)


def published_fn(k, cells, twin=False):
    """the 30 published points of g and g_bhw (three solves of the real loop, then the real resampling code): non-decreasing and within
    the range of the computed response whenever the computed response is non-decreasing (which the step units establish)"""
    def fn(e):
        import ghedesigner.radial_numerical_borehole as R
        STATE['step'] = 0
        sut = borehole(k)
        n = sum(cells)
        T0 = [e.real('T%d' % i, 20, 120) for i in range(n)]
        e.assume(T0[n - 1] == 20)
        ResampleInterp.made = []
        shadow(R, 'interp1d', ResampleInterp)
        rn = R.RadialNumericalBH(sut)
        (rn.num_fluid_cells, rn.num_conv_cells, rn.num_pipe_cells, rn.num_grout_cells, rn.num_soil_cells) = cells
        rn.num_cells = n
        rn.bh_wall_idx = sum(cells[:4])
        rn.thickness_soil_cell = (rn.r_far_field - rn.r_borehole) / rn.num_soil_cells
        rn.thickness_grout_cell = (rn.r_borehole - rn.r_out_tube) / rn.num_grout_cells
        rn.thickness_pipe_cell = (rn.r_out_tube - rn.r_in_tube) / rn.num_pipe_cells
        rn.thickness_conv_cell = (rn.r_in_tube - rn.r_convection) / rn.num_conv_cells
        rn.thickness_fluid_cell = (rn.r_convection - rn.r_fluid) / rn.num_fluid_cells
        orig_fill = rn.fill_radial_cells

        def fill(a, b):
            rc = orig_fill(a, b)
            for i in range(n):
                rc[R.CellProps.TEMP, i] = T0[i]
            return rc
        rn.fill_radial_cells = fill
        STATE['sol'], STATE['sys'], STATE['interp'] = [], [], []
        rn.calc_sts_g_functions(sut, final_time=360.0)
        if twin:
            return False
        cs = [len(ResampleInterp.made) >= 2]
        for itp, pub in zip(ResampleInterp.made[:2], (rn.g, rn.g_bhw)):
            raw = itp.y
            premise = conj([raw[i] <= raw[i + 1] for i in range(len(raw) - 1)])
            pub = list(pub)
            # 1e-6: the interpolation weights are binary64 quotients (a weight of 1 + 2e-16 times a difference of thousands)
            concl = conj([pub[i] <= pub[i + 1] + 1e-6 for i in range(len(pub) - 1)] + [pub[0] >= raw[0] - 1e-6, pub[-1] <= raw[-1] + 1e-6, len(pub) == 30])
            cs.append(implies(premise, concl))
        return conj(cs)
    return fn


def published_replay(k):
    def replay(model, notes):
        """native: the real model of the catalogue borehole - published g and g_bhw non-decreasing and inside the computed range"""
        restore_shadows()
        import numpy as np

        import ghedesigner.radial_numerical_borehole as R
        sut = borehole(k)
        rn = R.RadialNumericalBH(sut)
        raws = []
        real_itp = R.interp1d

        def spy(x, y, *a, **kw):
            raws.append(np.array(y, dtype=float))
            return real_itp(x, y, *a, **kw)
        shadow(R, 'interp1d', spy)
        try:
            rn.calc_sts_g_functions(sut)
        finally:
            restore_shadows()
        bad = {}
        for nm, pub, raw in (('g', np.array(rn.g, dtype=float), raws[0]), ('g_bhw', np.array(rn.g_bhw, dtype=float), raws[1])):
            steps = np.diff(pub)
            if (steps < -1e-9).any():
                bad[nm + '_decreasing_steps'] = int((steps < -1e-9).sum())
            if pub.max() > raw.max() + 1e-9 or pub.min() < raw.min() - 1e-9:
                bad[nm + '_range'] = [float(pub.min()), float(pub.max()), float(raw.min()), float(raw.max())]
        return bool(bad), dict(borehole=k, findings=bad)
    return replay


def time_axis_fn(k, cells, twin=False):
    """the time label attached to successive solves advances by the same step that the capacitance terms of the system were built
    with, for the borehole's own (default) simulation period - the first three solves of the real loop"""
    def fn(e):
        import ghedesigner.radial_numerical_borehole as R
        STATE['step'] = 0
        STATE['b0'] = []
        sut = borehole(k)
        n = sum(cells)
        T0 = [e.real('T%d' % i, 20, 120) for i in range(n)]
        e.assume(T0[n - 1] == 20)
        labels = []

        def log_rec(v):
            if len(STATE['sol']) > len(labels):        # the one log() of the time loop: called once after every solve
                labels.append(v)
                if len(labels) == 3:
                    raise _Enough()
            return math.log(v) if not isinstance(v, Sym) else sym_log_product(v)
        shadow(R, 'log', log_rec)
        rn = R.RadialNumericalBH(sut)
        (rn.num_fluid_cells, rn.num_conv_cells, rn.num_pipe_cells, rn.num_grout_cells, rn.num_soil_cells) = cells
        rn.num_cells = n
        rn.bh_wall_idx = sum(cells[:4])
        rn.thickness_soil_cell = (rn.r_far_field - rn.r_borehole) / rn.num_soil_cells
        rn.thickness_grout_cell = (rn.r_borehole - rn.r_out_tube) / rn.num_grout_cells
        rn.thickness_pipe_cell = (rn.r_out_tube - rn.r_in_tube) / rn.num_pipe_cells
        rn.thickness_conv_cell = (rn.r_in_tube - rn.r_convection) / rn.num_conv_cells
        rn.thickness_fluid_cell = (rn.r_convection - rn.r_fluid) / rn.num_fluid_cells
        orig_fill = rn.fill_radial_cells
        box = {}

        def fill(a, b):
            rc = orig_fill(a, b)
            for i in range(n):
                rc[R.CellProps.TEMP, i] = T0[i]
            box['rc'] = rc
            return rc
        rn.fill_radial_cells = fill
        STATE['sol'], STATE['sys'], STATE['interp'] = [], [], []
        try:
            rn.calc_sts_g_functions(sut)               # default period of this borehole (t_s dependent)
            finished = True
        except _Enough:
            finished = False
        if twin:
            return False
        rc = box['rc']
        P = R.CellProps
        # the step the system was built with, recovered from the first right-hand side: b0 = -T0 - q / (rho c V / dt), q = 1
        dt_coef = (-STATE['b0'][0] - T0[0]) * float(rc[P.RHO_CP, 0]) * float(rc[P.VOL, 0])
        t = [float(v) * rn.t_s for v in labels]
        cs = [len(labels) >= 2, not finished or len(labels) >= 2]
        for a, b in zip(t, t[1:]):
            cs.append(abs((b - a) - dt_coef) <= 1e-6 * dt_coef)
        cs.append(abs(t[0]) <= 1e-6)                   # the axis starts at (numerically) zero elapsed time
        return conj(cs)
    return fn


def time_axis_replay(k, cells):
    def replay(model, notes):
        """native: the real model of the catalogue borehole on the production mesh; consecutive stored responses must be separated by
        the heat injected in one coefficient step: energy check over the whole run against the time labels"""
        restore_shadows()
        import numpy as np

        import ghedesigner.radial_numerical_borehole as R
        sut = borehole(k)
        rn = R.RadialNumericalBH(sut)
        labels = []
        real_log = R.log

        solves = []

        def log_rec(v):
            if len(solves) > len(labels):
                labels.append(float(v))
            return real_log(v)
        shadow(R, 'log', log_rec)
        real_dgtsv = R.dgtsv

        def count(dl, d, du, b, overwrite_b=0):
            solves.append(1)
            return real_dgtsv(dl, d, du, b, overwrite_b=overwrite_b)
        shadow(R, 'dgtsv', count)
        try:
            rn.calc_sts_g_functions(sut)
        finally:
            restore_shadows()
        t = np.array(labels) * rn.t_s
        steps = np.diff(t)
        bad = bool(len(steps) and (abs(steps - 120.0) > 1e-6 * 120.0).any())
        return bad, dict(borehole=k, H=float(sut.b.H), solves=len(solves), label_steps=[float(x) for x in steps[:3]], coefficient_step=120.0,
                         period_s=float(rn.calc_time_in_sec))
    return replay


def dynamic_replay(k, cells, mode):
    def replay(model, notes):
        """native: the real calc_sts_g_functions with the real LAPACK on the reduced mesh, started from the model's state"""
        restore_shadows()
        import ghedesigner.radial_numerical_borehole as R
        sut = borehole(k)
        n = sum(cells)

        def native_step(T0):
            rn = R.RadialNumericalBH(sut)
            (rn.num_fluid_cells, rn.num_conv_cells, rn.num_pipe_cells, rn.num_grout_cells, rn.num_soil_cells) = cells
            rn.num_cells = n
            rn.bh_wall_idx = sum(cells[:4])
            rn.thickness_soil_cell = (rn.r_far_field - rn.r_borehole) / rn.num_soil_cells
            rn.thickness_grout_cell = (rn.r_borehole - rn.r_out_tube) / rn.num_grout_cells
            rn.thickness_pipe_cell = (rn.r_out_tube - rn.r_in_tube) / rn.num_pipe_cells
            rn.thickness_conv_cell = (rn.r_in_tube - rn.r_convection) / rn.num_conv_cells
            rn.thickness_fluid_cell = (rn.r_convection - rn.r_fluid) / rn.num_fluid_cells
            of = rn.fill_radial_cells
            box = {}

            def fill(a, b):
                rc = of(a, b)
                rc[R.CellProps.TEMP, :] = T0
                box['rc'] = rc
                box['T0'] = list(T0)
                return rc
            rn.fill_radial_cells = fill
            caught = {}
            real_dgtsv = R.dgtsv

            def spy(dl, d, du, b, overwrite_b=0):
                out = real_dgtsv(dl, d, du, b, overwrite_b=overwrite_b)
                caught.setdefault('T1', list(b))
                return out
            R.dgtsv = spy
            try:
                rn.calc_sts_g_functions(sut, final_time=240.0)
            finally:
                R.dgtsv = real_dgtsv
            return rn, box['rc'], caught['T1']
        T0 = [float(model['T%d' % i]) for i in range(n)]
        rn, rc, T1 = native_step(T0)
        P = R.CellProps
        dt = 120.0
        if mode == 'energy':
            gain = sum(float(rc[P.RHO_CP, i]) * float(rc[P.VOL, i]) * (T1[i] - T0[i]) for i in range(n - 1))
            res = math.log(rc[P.R_OUT, n - 2] / rc[P.R_CENTER, n - 2]) / (2 * math.pi * rc[P.K, n - 2]) + \
                math.log(rc[P.R_CENTER, n - 1] / rc[P.R_IN, n - 1]) / (2 * math.pi * rc[P.K, n - 1])
            outflow = (T1[n - 2] - T1[n - 1]) / res * dt
            return abs(gain - (dt - outflow)) > 1e-6 * dt, dict(gain=gain, injected=dt, outflow=outflow)
        if mode == 'bound':
            bad = any(t < 20 - 1e-7 for t in T1)
            return bad, dict(min_T1=min(T1))
        if mode == 'monotone':
            Tb = [float(model['U%d' % i]) for i in range(n)]
            _, _, T1b = native_step(Tb)
            bad = any(b < a - 1e-7 for a, b in zip(T1, T1b))
            return bad, dict(worst=min(b - a for a, b in zip(T1, T1b)))
        return False, 'n/a'
    return replay


def units(tier, seed):
    F = ['radial_numerical_borehole.py:RadialNumericalBH.__init__', 'radial_numerical_borehole.py:RadialNumericalBH.fill_radial_cells',
         'radial_numerical_borehole.py:RadialNumericalBH.calc_sts_g_functions', 'radial_numerical_borehole.py:RadialNumericalBH.partial_init']
    ST = ['numpy -> object-dtype facade', 'scipy.linalg.lapack.dgtsv -> fresh solution vector constrained by the tridiagonal equations',
          'scipy interp1d -> recorder', 'math.log -> uninterpreted with product rule (structural unit) / concrete (dynamic units)']
    AS = ['coefficients are the binary64 values the code computes, taken as exact rationals (tolerances 1e-9 / 1e-6 relative absorb the ~1e-16 row-sum defects)',
          'floats as reals']
    us = [Unit('structure_full_mesh', structural_fn(None), structural_replay(None), setup, F[:2],
               'production mesh 3/1/4/27/500 = 535 cells; r_b in [50,120] mm, pipe radii, H, conductivities, heat capacities, both effective resistances all symbolic reals; '
               'validity: r_fluid > 0 and sqrt(2) r_out < r_b', AS, ST, max_seconds=1200, timeout_ms=120000),
          Unit('structure_small_mesh', structural_fn((2, 2, 3, 4, 6)), structural_replay((2, 2, 3, 4, 6)), setup, F[:2], 'mesh 2/2/3/4/6 with the same symbolic geometry (other cell counts)', AS, ST)]
    us.append(Unit('structure_reused_model', structural_fn((2, 2, 3, 4, 6), reuse=True), structural_replay((2, 2, 3, 4, 6), reuse=True), setup, F[:2] + F[3:],
                   'mesh 2/2/3/4/6; the model was constructed for a tube with other (symbolic) material properties and height, then partial_init with the tube under test',
                   AS, ST))
    meshes = [(3, 1, 2, 3, 8)] if tier == 'quick' else [(3, 1, 2, 3, 8), (3, 1, 4, 6, 10)]
    ks = [0, 1, 2, 6] if tier == 'quick' else list(range(12))
    for cells in meshes:
        for k in ks:
            for mode in ('energy', 'bound', 'monotone'):
                us.append(Unit('step_%s_bh%d_%dcells' % (mode, k, sum(cells)), dynamic_fn(k, cells, mode), dynamic_replay(k, cells, mode), setup, F[2:],
                               'borehole %d of the catalogue, mesh %s = %d cells; previous temperatures all reals in [20,120], far field 20' % (k, '/'.join(map(str, cells)), sum(cells)),
                               AS, ST, max_seconds=1500, timeout_ms=600000))
    for k in ([0, 6] if tier == 'quick' else list(range(12))):
        us.append(Unit('published_points_bh%d' % k, published_fn(k, (3, 1, 2, 3, 8)), published_replay(k), setup, F[2:],
                       'borehole %d of the catalogue, three solves of the real loop from arbitrary previous temperatures, then the real resampling to 30 points' % k,
                       AS, ST + ['scipy interp1d -> contract: linear kind = convex combination of the bracketing samples; any other kind = unknown values between the samples'],
                       max_seconds=900))
    for k in ([0, 2, 8] if tier == 'quick' else list(range(12))):
        us.append(Unit('time_axis_bh%d' % k, time_axis_fn(k, (3, 1, 2, 3, 8)), time_axis_replay(k, (3, 1, 2, 3, 8)), setup, F[2:],
                       'borehole %d of the catalogue with its own default simulation period; first three solves of the real loop; previous temperatures symbolic' % k,
                       AS, ST + ['math.log -> recorder of the time labels; the loop is left after the third label'], max_seconds=600))
    us.append(Unit('twin_reachability', dynamic_fn(0, (3, 1, 2, 3, 8), 'bound', twin=True), None, setup, F[2:], 'assert False must be violated', expect_cex=True))
    return us
