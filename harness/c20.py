"""C20 - per-borehole and system flow specifications are equivalent."""
from types import SimpleNamespace as NS

import z3

from symx import *  # noqa: F403
from symx.runner import Unit, restore_shadows, shadow

from .search_common import conj

PROPERTY = 'C20'
EXPLANATION = ('Bisection1D.retrieve_flow, RowWiseModifiedBisectionSearch.retrieve_flow and the flow lines of BaseGHE.__init__ run with a '
               'symbolic flow rate v, fluid density and borehole count N (Int 1..400, through a len() shadow). Asserted: BOREHOLE(v) and '
               'SYSTEM(N v) give the same per-borehole mass flow in both search classes, equal to v rho / 1000 and to the value '
               'BaseGHE.__init__ recomputes from the system flow and hands to the borehole model; with a system flow m_borehole x N = '
               'V rho / 1000 (1/N along the candidate list). (N v)/N is additionally checked in the float relative-error model.')
OUTSIDE = ('borehole resistance and temperatures are functions of the per-borehole mass flow only (get_bhe_object receives nothing else that '
           'depends on the flow specification), so their equality follows by congruence; those numerics themselves are not encoded.')


class Field:
    """candidate field token with a symbolic number of boreholes"""

    def __init__(self, n):
        self.n = n


def _len(x):
    if isinstance(x, Field):
        return x.n
    return len(x)


def setup():
    import ghedesigner.ground_heat_exchangers as G
    import ghedesigner.search_routines as SR
    from symx import engine
    engine.OPTIONS['div_mode'] = 'quot'
    shadow(SR, 'len', _len)
    shadow(G, 'len', _len)
    rec = {}

    def fake_bhe(bhe_type, m_flow_borehole, fluid, borehole, pipe, grout, soil):
        rec['m_flow_to_bhe'] = m_flow_borehole
        return NS(to_single=lambda: NS(), m_flow_borehole=m_flow_borehole)

    class FakeRadial:
        def __init__(self, b):
            pass

        def calc_sts_g_functions(self, b):
            return None
    shadow(G, 'get_bhe_object', fake_bhe)
    shadow(G, 'RadialNumericalBH', FakeRadial)
    shadow(G, 'REC', rec)


class V:
    def __init__(self, e=None, model=None):
        self.e, self.model = e, model

    def real(self, name, lo=None, hi=None):
        return self.e.real(name, lo, hi) if self.e is not None else float(self.model[name])

    def integer(self, name, lo=None, hi=None):
        return self.e.int(name, lo, hi) if self.e is not None else int(self.model[name])


def eq(a, b, v):
    if v.e is not None:
        return a == b
    return abs(a - b) <= 4 * 2.0 ** -53 * max(abs(a), abs(b)) * 4


def body(v, cls_name):
    import ghedesigner.ground_heat_exchangers as G
    import ghedesigner.search_routines as SR
    from ghedesigner.enums import FlowConfigType
    vf = v.real('v', 1e-4, 10.0)
    rho = v.real('rho', 700.0, 1200.0)
    rho20 = v.real('rho_at_20C', 700.0, 1200.0)      # the underlying fluid's density at another temperature: some other value
    n = v.integer('N', 1, 400)
    field = Field(n) if v.e is not None else [(0.0, float(i)) for i in range(n)]
    cls = getattr(SR, cls_name)
    sb = cls.__new__(cls)
    sb.V_flow, sb.flow_type = vf, FlowConfigType.BOREHOLE
    sys_b, m_b = sb.retrieve_flow(field, rho)
    ss = cls.__new__(cls)
    ss.V_flow, ss.flow_type = vf * n, FlowConfigType.SYSTEM
    sys_s, m_s = ss.retrieve_flow(field, rho)
    cs = [eq(m_b, m_s, v), eq(m_b * 1000.0, vf * rho, v), eq(sys_b, sys_s, v), eq(sys_b, vf * n, v), eq(m_s * n * 1000.0, ss.V_flow * rho, v)]
    # BaseGHE.__init__ recomputes the per-borehole flow from the system flow it is given
    for sysflow, m_search in ((sys_b, m_b), (sys_s, m_s)):
        ghe = G.BaseGHE.__new__(G.BaseGHE)
        fluid = NS(rho=rho, cp=4000.0, fluid=NS(density=lambda t: rho20, specific_heat=lambda t: 4000.0))
        G.BaseGHE.__init__(ghe, sysflow, 5.0, None, fluid, NS(), NS(), NS(), NS(), NS(bore_locations=field), NS(), [])
        cs += [eq(ghe.m_flow_borehole, m_search, v), eq(G.REC['m_flow_to_bhe'], m_search, v), eq(ghe.V_flow_borehole * n, sysflow, v),
               eq(ghe.nbh, n, v) if v.e is not None else ghe.nbh == n]
    # an unknown flow type is refused
    bad = cls.__new__(cls)
    bad.V_flow, bad.flow_type = vf, 'other'
    try:
        bad.retrieve_flow(field, rho)
        cs.append(False)
    except ValueError:
        cs.append(True)
    return cs


def make_fn(cls_name, twin=False):
    def fn(e):
        cs = body(V(e=e), cls_name)
        return False if twin else conj(cs)
    return fn


def make_replay(cls_name):
    def replay(model, notes):
        restore_shadows()
        setup()
        try:
            cs = body(V(model=model), cls_name)
        finally:
            restore_shadows()
        bad = [k for k, c in enumerate(cs) if not bool(c)]
        return bool(bad), dict(failed=bad, inputs=model)
    return replay


def fp_fn(e):
    """fl(fl(N v) / N) = v (1+e1)(1+e2), |e| <= 2^-53  =>  relative deviation <= 4 * 2^-53"""
    U = 2.0 ** -53
    v = e.real('v', 1e-4, 10.0)
    e1, e2 = e.real('e1', -U, U), e.real('e2', -U, U)
    r = v * (1 + e1) * (1 + e2)
    return (abs(r - v) <= 4 * U * v)


def parse_fn(e):
    """GHEManager.set_design: flow-type string parsed case-insensitively; anything else refused (concrete variants,
    the flow value symbolic and handed on unchanged)"""
    import ghedesigner.manager as M
    from ghedesigner.enums import DesignGeomType, FlowConfigType
    vf = e.real('v', 1e-4, 10.0)
    got = {}
    shadow(M, 'print', lambda *a, **k: None)

    class FakeDesign:
        def __init__(self, flow_rate, *a, flow_type=None, **k):
            got['flow'] = flow_rate
            got['type'] = flow_type
    ok = []
    for s, exp in (('system', FlowConfigType.SYSTEM), ('SYSTEM', FlowConfigType.SYSTEM), ('SyStEm', FlowConfigType.SYSTEM),
                   ('borehole', FlowConfigType.BOREHOLE), ('BOREHOLE', FlowConfigType.BOREHOLE), ('Borehole', FlowConfigType.BOREHOLE)):
        m = M.GHEManager()
        m._geometric_constraints = NS(type=DesignGeomType.NEARSQUARE)
        shadow(M, 'DesignNearSquare', FakeDesign)
        got.clear()
        rc = m.set_design(vf, s)
        ok += [rc == 0, got.get('type') == exp, got.get('flow') is vf]
    for s in ('sys', 'perborehole', ''):
        m = M.GHEManager()
        m._geometric_constraints = NS(type=DesignGeomType.NEARSQUARE)
        ok.append(m.set_design(vf, s, throw=False) == 1)
        try:
            m.set_design(vf, s)
            ok.append(False)
        except ValueError:
            ok.append(True)
    return conj(ok)


def search_flow_fn(kind, p, flow_name, twin=False):
    """inside a search: every candidate's g-function is computed with the per-borehole flow of THAT candidate (V rho / 1000 / N for a
    system flow, v rho / 1000 for a per-borehole flow), which is also the flow of the exchanger built on it - whatever was evaluated before"""
    def fn(e):
        import ghedesigner.search_routines as SR
        from ghedesigner.enums import FlowConfigType, TimestepType

        from . import search_common as SC, search_props as SP
        ctx = SC.SearchCtx(e=e)
        vf = e.real('v', 1e-3, 50.0)
        parts = SC.light_parts()
        sp = SC.sim_params(ctx, None, False)
        dom, desc = SP.domain(kind, p)
        common = dict(v_flow=vf, sim_params=sp, hourly_extraction_ground_loads=[0.0] * 8760, method=TimestepType.HYBRID,
                      flow_type=getattr(FlowConfigType, flow_name), **parts)
        cls = {'ns': SR.Bisection1D, 'rect': SR.Bisection1D, '2d': SR.Bisection2D}.get(kind, SR.BisectionZD)
        try:
            cls(dom, desc, **common)
        except ValueError:
            pass
        if twin:
            return False
        rho = parts['fluid'].rho
        cs = [len(ctx.flow_records) >= 2]
        for m_g, m_ghe, nbh, v_sys in ctx.flow_records:
            exp = vf * rho / 1000.0 / nbh if flow_name == 'SYSTEM' else vf * rho / 1000.0
            cs += [m_g is not None, m_g == exp, m_ghe == exp]
        return conj(cs)
    return fn


def search_flow_setup():
    from . import search_common as SC
    SC.install()
    setup()


def chain_setup():
    from . import c17
    c17.setup()


def chain_fn(geo, flow_str):
    """manager -> design class -> search class: the flow specification given to set_design reaches the search unchanged, for every
    design method (real setters and Design* constructors; candidate generators and the search classes are recorders)"""
    def fn(e):
        import ghedesigner.design as DS
        import ghedesigner.manager as M
        from ghedesigner.enums import FlowConfigType

        from . import c17
        v = c17.V(e=e)
        m = c17.configure(M, v, geo, 'SINGLEUTUBE', dict(flow_type=flow_str))
        flow = e.inputs['flow']
        got = {}

        def recorder(name):
            def ctor(*a, **k):
                got['cls'] = name
                got['flow_type'] = k.get('flow_type')
                # positional layout of the real constructors: (domain, descriptors, v_flow, ...) for the bisection classes, (v_flow, ...) for RowWise
                got['v_flow'] = k.get('v_flow', a[0] if name.startswith('RowWise') else a[2])
                return NS()
            return ctor
        for name in ('Bisection1D', 'Bisection2D', 'BisectionZD', 'RowWiseModifiedBisectionSearch'):
            shadow(DS, name, recorder(name))
        m._design.find_design()
        exp = FlowConfigType.SYSTEM if flow_str.lower() == 'system' else FlowConfigType.BOREHOLE
        vf = got.get('v_flow')
        same_flow = vf is not None and vf == Sym(flow)          # semantic equality, decided by the solver
        return conj([m._design.flow_type == exp, got.get('flow_type') == exp, same_flow, m._design.V_flow == Sym(flow)])
    return fn


def units(tier, seed):
    F = ['search_routines.py:Bisection1D.retrieve_flow', 'search_routines.py:RowWiseModifiedBisectionSearch.retrieve_flow',
         'ground_heat_exchangers.py:BaseGHE.__init__', 'manager.py:GHEManager.set_design']
    ST = ['len() -> symbolic borehole count for the field token', 'get_bhe_object / RadialNumericalBH -> recorders (the pipe and radial models are not the subject)']
    AS = ['floats as reals (plus the relative-error unit)', 'division by quotient variables']
    B = 'flow v all reals in [1e-4, 10] L/s, density all reals in [700, 1200] kg/m3, N every Int in 1..400'
    return [
        Unit('bisection1d', make_fn('Bisection1D'), make_replay('Bisection1D'), setup, F, B, AS, ST),
        Unit('rowwise', make_fn('RowWiseModifiedBisectionSearch'), make_replay('RowWiseModifiedBisectionSearch'), setup, F, B, AS, ST),
        Unit('fp_relative_error', fp_fn, None, None, [], 'v in [1e-4, 10], two rounding errors |eps| <= 2^-53', ['standard relative-error model of binary64']),
        Unit('flow_type_parsing', parse_fn, None, setup, F[3:], '9 concrete spellings; flow value symbolic', AS, ['Design* constructor -> recorder']),
    ] + [
        Unit('search_flow_%s_%s' % (kind, fl), search_flow_fn(kind, p, fl), None, search_flow_setup,
             ['search_routines.py:Bisection1D.initialize_ghe', 'search_routines.py:Bisection1D.search', 'search_routines.py:Bisection2D.__init__', 'search_routines.py:BisectionZD.search_successive',
              'search_routines.py:Bisection1D.retrieve_flow'],
             '%s candidate list, flow type %s; flow value and all excess temperatures symbolic (all sign patterns)' % (kind, fl), AS,
             ['GHE -> light object recording its flows; calc_g_func_for_multiple_lengths -> token recording the flow it was given; simulate -> symbolic temperatures'])
        for kind, p in (('ns', dict(n=3)), ('2d', dict(L=20.0, W=12.0, bmin=4.0, bmx=10.0, bmy=6.0))) for fl in ('SYSTEM', 'BOREHOLE')
    ] + [
        Unit('design_chain_%s_%s' % (geo, fs), chain_fn(geo, fs), None, chain_setup, ['manager.py:GHEManager.set_design', 'design.py:Design*.__init__', 'design.py:Design*.find_design'],
             'design method %s, flow type string %r; flow value and every other numeric setting symbolic' % (geo, fs), AS,
             ['candidate generators -> empty lists; search classes -> recorders of their constructor arguments'])
        for geo in ('NEARSQUARE', 'RECTANGLE', 'BIRECTANGLE', 'BIZONEDRECTANGLE', 'BIRECTANGLECONSTRAINED', 'ROWWISE') for fs in ('system', 'Borehole')
    ] + [
        Unit('twin_reachability', make_fn('Bisection1D', twin=True), None, setup, F, 'assert False must be violated', expect_cex=True),
    ]
