#!/bin/bash
# tools/mutant.sh <ID> <file under ghedesigner/> <python-regex-old> <new> [--only glob] : one-off source mutant in a scratch copy
ID=$1; FILE=$2; OLD=$3; NEW=$4; shift 4
D=/root/scratch/mutant.$$
mkdir -p $D && cp -r /repo/ghedesigner /repo/demos $D/ && rm -rf $D/ghedesigner/tests/test_outputs $D/ghedesigner/tests/test_logs
python3 - "$D/ghedesigner/$FILE" "$OLD" "$NEW" <<'PY'
import sys
p, old, new = sys.argv[1:4]
s = open(p).read()
assert s.count(old) >= 1, 'pattern not found'
open(p, 'w').write(s.replace(old, new, 1))
PY
[ $? -eq 0 ] || { rm -rf $D; exit 9; }
cd /verif && VERIF_REPO=$D ./check $ID --no-evidence "$@" 2>/dev/null | cut -c1-260 | tail -4
rm -rf $D
