#!/usr/bin/env python3
"""tools/keep_seed.py <worktree> <seed-name> <property> <detected_by> "<needs>" : archive a confirmed seeded change"""
import json, os, shutil, subprocess, sys
wt, name, prop, detected, needs = sys.argv[1:6]
dst = '/verif/seeded/%s' % name
os.makedirs(dst, exist_ok=True)
diff = subprocess.check_output(['git', '-C', wt, 'diff', '--', 'ghedesigner']).decode()
open(dst + '/patch.diff', 'w').write(diff)
for f in ('demo.py', 'notes.md'):
    if os.path.exists(wt + '/out/' + f):
        shutil.copy(wt + '/out/' + f, dst + '/' + f)
log = open('/root/scratch/seedlogs/%s.log' % os.path.basename(wt).replace('mut_', '')).read() if os.path.exists('/root/scratch/seedlogs/%s.log' % os.path.basename(wt).replace('mut_', '')) else ''
meta = dict(property=prop, name=name, breaks=open(wt + '/out/PROPERTY.txt').read().split('\n')[0] if os.path.exists(wt + '/out/PROPERTY.txt') else prop,
            needs_to_manifest=needs, base_commit=subprocess.check_output(['git', '-C', wt, 'rev-parse', '--short', 'HEAD']).decode().strip(),
            confirmed=dict(what_i_ran='tools/confirm_seed.sh in the scratch worktree: demo.py with the change (must fail), demo.py with the change stashed (must pass), the most affected test files with the change (must pass)',
                           log=[l for l in log.splitlines() if l.startswith(('--', 'exit', '==')) or 'passed' in l or 'failed' in l]),
            detected_by=detected.split(','), how_to_run='git -C /repo apply /verif/seeded/%s/patch.diff && ./check <ID>; git -C /repo checkout -- .' % name)
json.dump(meta, open(dst + '/meta.json', 'w'), indent=1)
print('kept', dst)
