#!/usr/bin/env python3
"""Regenerates MANIFEST.json from the table below (one place to keep it valid)."""
import json
import os

V = os.path.dirname(os.path.dirname(os.path.abspath(__file__)))

TECH = 'bounded symbolic execution of the real Python functions with z3 (SYMX proxies), native replay of models'

# id -> (level text, level note, design ref, technique override)
CLAIMED = {
    'C19': ('Solver-decided for every hour index 0..8759 (month/day/hour labels against an independent z3 calendar) and '
            'for all real elapsed times up to 30 years (monotone, two-sided Lipschitz, exact value, integer month ends); '
            'row builders proved to echo symbolic loads/coordinates/g-rows. Bounded only by the stated ranges.',
            'floats modelled as reals; grab_g_function stubbed by symbolic arrays (C11 covers it); quick tier forks the '
            'symbolic load position over 24 positions, thorough over all 8760.', '3/C19', None),
}

NOT_YET = {}


def main():
    props = [json.loads(l) for l in open(os.path.join(V, 'properties.jsonl'))]
    na_path = os.path.join(V, 'tools', 'not_applicable.json')
    na = json.load(open(na_path)) if os.path.exists(na_path) else {}
    checks = []
    not_app = []
    for p in props:
        pid = p['id']
        if pid in CLAIMED:
            text, note, ref, tech = CLAIMED[pid]
            checks.append(dict(
                property_id=pid,
                quick_cmd='./check %s --tier quick' % pid,
                thorough_cmd='./check %s --tier thorough' % pid,
                evidence_file='/verif/evidence/%s.json' % pid,
                replay_cmd_template='./check %s --replay {path}' % pid,
                engine='symx',
                level_claimed=dict(category='other', text=text, design_ref='DESIGN.md section ' + ref),
                level_note=note,
                technique=tech or TECH,
            ))
        else:
            not_app.append(dict(property_id=pid, reason=na.get(pid, 'check not built yet in this round (solver-based harness pending; see DESIGN.md section 3)')))
    m = dict(
        version=1,
        setup_cmd='./setup.sh',
        hooks=dict(guard='GHEDESIGNER_VERIF', enable='none needed: module-level shadowing at import time, no source hooks',
                   baseline_off_cmd='cd /repo && /venv/bin/python -m pytest -ra -q -p no:cacheprovider --timeout=900 --continue-on-collection-errors',
                   source_commits=[], add_only=True),
        engines=[dict(name='symx', path='/verif/symx', serves_properties=sorted(CLAIMED),
                      kind_free_text='dynamic symbolic execution of the real Python code by z3 proxy values (fork at every symbolic branch, '
                                     'DFS by decision-prefix replay), VC = path condition and negated property, models replayed natively; '
                                     'cvc5 binary as second solver on exported VCs')],
        checks=checks,
        notes='All checks: exit 0 held / 1 VIOLATION (natively reproduced) / 2 inconclusive (unknown, budget) / 3 harness error. '
              'Known findings: /verif/known_findings.json. Seeded changes: /verif/seeded/.',
        not_applicable=not_app,
    )
    json.dump(m, open(os.path.join(V, 'MANIFEST.json'), 'w'), indent=1)
    print('MANIFEST: %d checks, %d not_applicable' % (len(checks), len(not_app)))


if __name__ == '__main__':
    main()
