#!/usr/bin/env python3
"""Regenerates MANIFEST.json from the table below (one place to keep it valid)."""
import json
import os

V = os.path.dirname(os.path.dirname(os.path.abspath(__file__)))

TECH = 'bounded symbolic execution of the real Python functions with z3 (SYMX proxies), native replay of models'

# id -> (level text, level note, design ref, technique override)
SEARCH_NOTE = ('thermal evaluation replaced by free symbolic (maxEFT, minEFT) per (candidate, height), deterministic; brentq replaced by its '
               'contract (root within tolerance, Lipschitz 1 K/m); excess never exactly 0; distinct candidates have distinct excess; candidate '
               'lists are concrete outputs of the real generators (near-square up to 32/64 fields, rectangle, bi-rectangle nested, bi-zoned, '
               'polygon-constrained, RowWise with a grid stub); floats as reals; counterexamples replayed natively with the same stubs')
CLAIMED = {
    'C01': ('Bounded proof over all sign/magnitude patterns of the abstract temperatures, all height windows, caps and policies, for the '
            'listed candidate lists: after find_design the (field, height) left in the GHE object has excess <= 1e-3 K unless an unmet escape '
            'was taken. Covers every load/soil/pipe/fluid because each only selects one temperature table. limits_chain_* units: the limits, height window, cap, horizon and continue flag given to set_simulation_parameters reach the search constructor of each of the six design methods unchanged and BaseGHE.cost measures against them.', SEARCH_NOTE, '3/C01', None),
    'C02': ('Same runs: final height within [min,max]; count <= max_boreholes; Search failed only when the user did not ask to continue and no '
            'allowed candidate fits; continued runs return largest@max / smallest@min; any non-ValueError exception escaping is a violation '
            '(found and fixed: RowWise TypeError); the cap also in the nested searches (capped bi-rectangle / bi-zoned units).', SEARCH_NOTE, '3/C02', None),
    'C03': ('For each concrete land rectangle (4 catalogue + 1 seeded lot quick; 17 + 12 thorough, both orientations, integer and non-integer '
            'side/spacing ratios) the solver partitions the whole range of spacing bounds into regions of constant row/column counts and shows '
            'on every region that all fields of the real generators stay on the land, have no coincident boreholes and keep b_min; near-square '
            'grids equal the n x n / n x (n+1) lattice at spacing b and the list is complete; lists are count-ordered; floor/ceil kernel '
            'proved in the float relative-error model for counts 3..120 (400), and the row count bi_rectangular recovers from a re-derived spacing.',
            'land sides concrete (symbolic sides: z3 unknown, probed); spacing window assumed to admit an integer row count and three rows at '
            'the maximum spacing; floats as reals except the kernel lemma', '3/C03', None),
    'C04': ('Pattern B for each concrete polygon configuration (4 quick / 5 thorough: L-shape, rectangle with a no-go zone, two clockwise outlines, '
            'offset convex polygon with a triangular no-go, U-shape with two no-go zones): over the whole range of spacing bounds every kept '
            'borehole is inside/on-edge of a property polygon and strictly outside every no-go polygon (exact rational oracle), clearly '
            'acceptable grid boreholes are never dropped, empty fields are removed, lists are count-ordered; plus remove_cutout on a fully '
            'symbolic point for all four remove_inside/keep_contour combinations on four polygon sets; the same pipeline after another design of the same extent (same grid points, other polygons) was built in the same process.',
            'polygons concrete; sqrt abstraction + detour lemma as C16; points within 2 x tolerance of a boundary exempt from the never-dropped clause',
            '3/C04', None),
    'C05': ('Same runs: final height is a brentq root unless the sign does not change; count*H <= count_j*Hmax for every evaluated feasible j; '
            'predecessor of the selection evaluated and failing; first feasible under monotone excess (all threshold positions up to 32/64 '
            'fields).', SEARCH_NOTE, '3/C05', None),
    'C06': ('Solver-decided for every month of the year x horizons {12,25,240} (thorough: 1..36 and 47..360) with the month table fully '
            'symbolic, and for the whole pipeline from raw 8760-hour profiles with symbolic peak magnitudes and durations at catalogue '
            'positions: per-month energy of the emitted sequence equals the month net load.',
            'peak durations arbitrary in (0,48] (stub of perform_current_month_simulation); numpy replaced by an exact list facade; division '
            'by quotient variables; one known finding (1 January same-day pulses with a duration > 26 h).', '3/C06', None),
    'C07': ('Pulses present with the month peak magnitude, sign, length = duration, centred/abutting noon; no pulse and '
            'degenerate duration where there is no load; single average segment outside the retention window; monthly peak/day equal the raw '
            'profile; 48 h window indices for every peak day. Durations: 0 < d <= 48 h and finite through the real find_peak_durations / '
            'perform_current_month_simulation / simulate_hourly for concrete g-functions of real boreholes (1 quick, 2 thorough) and one symbolic '
            'load magnitude per unit (peak or previous-day load, catalogue of months/days/base profiles); Cullin-Spitler equivalence of the '
            'reported duration recomputed from the raw profile where peak and average are concrete.',
            'NOT claimed: duration bound / equivalence for load shapes and boreholes outside the catalogue; equivalence with a symbolic '
            'peak or average (z3 unknown). interp1d by contract; in the pulse units the duration is an arbitrary value in (0,48].', '3/C07', None),
    'C08': ('Axis starts at 0, has every month end (independent closed-form calendar), ends at the horizon, replicates year-1 values, and is '
            'strictly increasing under the stated premise - for all symbolic monthly tables; calendar helpers for every month index 1..360.',
            'as C06; single-year load files only', '3/C08', None),
    'C09': ('Every returned temperature equals the documented superposition formula for symbolic loads/times/parameters (n up to 8 quick, 24 '
            'thorough; the loop body is identical for every step), through GHE.simulate including unit factors; corollaries; hourly branch '
            'axis/load consistency for every horizon 1..360 and three call histories; the load vector the hourly branch hands to the sum is minus the extraction load of each hour on the axis 1, 2, ... h (symbolic loads at four hours of the year, horizons 1..30 (120) months).',
            'g and ln uninterpreted; floats as reals; numpy replaced by exact list facade', '3/C09', None),
    'C10': ('Structural clauses for all geometries (symbolic radii, conductivities, capacities; production 535-cell mesh and a second mesh): '
            'gap-free tiling from the fluid core to 10 m, fluid thermal mass, layer resistances summing to R_b*. Dynamic clauses by one '
            'inductive step from an arbitrary state on reduced meshes of 4 (quick) / 12 (thorough) concrete boreholes: energy stored = injected '
            '- outflow (1e-6), T >= T_init preserved, monotone step, g formula; induction gives non-decreasing g, g_bhw >= 0, g >= -2 pi k R_b*; '
            'time axis of the real loop (first three solves, the borehole\'s own period): label step = coefficient step; the 30 published '
            'points (real resampling code, interp1d by contract) non-decreasing and inside the computed range; the model reused for another tube.',
            'NOT claimed: 0.5 % agreement with a fine-mesh solution, finiteness in floats, resampling accuracy between samples. dgtsv replaced by its contract; '
            'coefficients = the binary64 values computed, taken as exact rationals; dynamic clauses on 17/24-cell meshes only (34 cells: z3 '
            'unknown).', '3/C10', None),
    'C11': ('Decidable part: joined axis strictly increasing, long-time points reproduced with radius-corrected values, short-time points kept '
            'exactly below the first long-time point (1..8 symbolic short-time points against the Eskilson axis and a symbolic axis); '
            'interpolation at a stored height returns the stored curve and radius for 1..5 symbolic stored heights (native replay with the '
            'real scipy); radius correction identity/additive/monotone; grab_g_function glue; the stored long-time family is computed by pygfunction calls that receive the boundary condition, solver and segment options asked for, the field at each height/depth/radius and the times of that height (pygfunction as a recorder).',
            'NOT claimed: the numbers of the FLS/UHTR 1e-4 anchor and the 20 % MIFT clause (pygfunction numerics). interp1d replaced by its node contract; ln '
            'uninterpreted with product rule + monotonicity instances; stored heights >= 0.01 m apart; no exact tie of a short-time point '
            'with the first long-time point.', '3/C11', None),
    'C12': ('Same runs as C01 on the live object state the summary is built from (count, height tag of the stored temperatures, search-log '
            'rows) + the real get_summary_object and get_summary_text (value handed to the row formatter under each label; native replay parses the text) on a light design object with symbolic values.', SEARCH_NOTE, '3/C12', None),
    'C13': ('Self-composition: two histories ending in the same configuration run in one symbolic execution and z3 proves their results equal '
            'with the numeric kernels uninterpreted: all prefixes of up to two earlier operations {simulate HYBRID, simulate HOURLY, size} at '
            'other symbolic heights on one GHE object; the interpolation cache after an earlier query at any height; the search + sizing '
            'repeated, after an unrelated search, and from another nominal borehole height; 24 (200) setter orders; mutable defaults (calls with and without a no-go zone interleaved through both default lists); the '
            'equivalent-tube conversion applied twice; the long-time g-function computation (real calc_g_func_for_multiple_lengths / '
            'calculate_g_function over a contract stub of pygfunction) after one or two earlier computations with other media, soil, flow or '
            'geometry.',
            'kernels are functions of the arguments they receive (bit-identity of floats beyond that is outside); queries within 2 mm of the '
            'extreme stored heights excluded (binary64 snapping tolerances)', '3/C13', None),
    'C14': ('For each concrete convex polygon (6 catalogue + seeded random polygons with 3..12 vertices, both orientations, touching the axes) '
            'and rotation, for ALL target spacings in [5,25] m: generator terminates within derived loop bounds, every borehole inside/on '
            'the outline, pair distances >= s, exact lattice on axis-aligned rectangles, rigid translation; rotation sweep returns the first '
            'rotation with the maximal count for all count vectors; lots narrower than the spacing and exact-divisor rectangles; with no-go '
            'zones (plain generator with 1-3 zones in both list orders, and the perimeter variant): inside the outline and outside every '
            'zone (spacings in [5,12]).',
            'polygon and rotation concrete (trig of symbolic arguments unsupported); coordinates natively in binary64; spacing regions thinner '
            'than 1e-9 relative excluded from the lattice/translation clauses; gen_borehole_config stubbed by symbolic counts in the sweep units',
            '3/C14', None),
    'C15': ('Geometry part for all radii in mm-scale ranges: equal-volume radii reproduce fluid and pipe-wall volume (independent '
            'cross-section formulas for double-U and coaxial), legs of the equivalent tube inside the possibly enlarged borehole and not '
            'overlapping, original borehole/grout not aliased, SingleUTube converts to itself. Resistance matching for 4 concrete '
            'geometries and all conductivities/flows: real constructors, to_single, both objectives and solve_root over a contract model '
            'of pygfunction; grout objective strictly increasing in the trial conductivity, and on bracketed paths R_b*, R_fp and the '
            'stored delta circuit equal the solved values (the grout clauses are a KNOWN FINDING on this tree); for concrete flow cases '
            '(convection coefficients from the real correlations) the pipe-resistance match is asserted unconditionally, bracket adequacy '
            'included (laminar cases: KNOWN FINDING).',
            'NOT claimed: that the brackets contain the roots (Gnielinski/Colebrook, multipole numerics: not encodable; pygfunction is a '
            'contract stub). sqrt with defining equation, ln uninterpreted with product rule, brentq as exact root.', '3/C15', None),
    'C16': ('For each concrete polygon (12 hand-made incl. the demo outline + 48 seeded lattice polygons quick; all 3-4 vertex lattice polygons '
            'thorough) the classification is proved for every real test point and tolerance against an independent crossing-number oracle '
            'with the opposite half-open convention; polygons also given as closed rings (first vertex repeated) from different start vertices, and in a list object that held another polygon during an earlier check.',
            'sqrt abstracted (fresh non-negative real per term + per-edge detour lemma, slack 1e-12); polygon vertices concrete', '3/C16', None),
    'C17': ('For each geometry method (incl. RowWise with/without perimeter ratio) x pipe arrangement x option set, with every numeric field '
            'symbolic in its schema range: the written value tree satisfies every section schema and the load->write round trip reproduces '
            'it (term equality; degree/radian pair with exact binary64 constants and rounding as linear integer constraints). Counterexamples '
            'replay through the real writer, real jsonschema and real CLI worker.',
            'JSON text = identity on the value tree; fluids concrete; jsonschema replaced by a translator regenerated from the schema files and '
            'cross-checked against the real package on the demo files', '3/C17', None),
    'C18': ('The real click command, through click\'s own main(), for 7 option combinations x symbolic validation error count x conversion '
            'outcome: exit status zero exactly when outputs were written / valid under --validate-only / converted. validate_input_file on demo '
            'instances with one field symbolic / missing / wrong-typed / re-spelled: verdict 0 iff every section schema holds, error count = '
            'number of failing sections; every numeric key of the geometric-constraint, pipe, design and borehole sections symbolic for each of the six design methods and three pipe families. Counterexamples replay as real subprocesses / real jsonschema.',
            'enum strings are enumerated spellings; the design run inside the worker is stubbed', '3/C18', None),
    'C19': ('Solver-decided for every hour index 0..8759 (month/day/hour labels against an independent z3 calendar) and '
            'for all real elapsed times up to 30 years (monotone, two-sided Lipschitz, exact value, integer month ends); '
            'row builders proved to echo symbolic loads/coordinates/g-rows. Bounded only by the stated ranges.',
            'floats modelled as reals; grab_g_function stubbed by symbolic arrays (C11 covers it); quick tier forks the '
            'symbolic load position over 24 positions, thorough over all 8760.', '3/C19', None),
    'C20': ('For all flow rates, densities and borehole counts 1..400: per-borehole and system specifications give the same per-borehole '
            'mass flow in both search classes and in BaseGHE.__init__ (the value handed to the borehole model), = v rho/1000; m x N = '
            'V rho/1000 for system flow; unknown flow type refused; (N v)/N in the float relative-error model; flow value and type travel '
            'unchanged from set_design through each of the six Design* classes to the search constructor.',
            'downstream resistance/temperatures equal by congruence (functions of the per-borehole mass flow only), not encoded; '
            'flow-type strings: 9 concrete spellings', '3/C20', None),
}

NOT_YET = {}


def main():
    props = [json.loads(l) for l in open(os.path.join(V, 'properties.jsonl'))]
    na_path = os.path.join(V, 'tools', 'not_applicable.json')
    na = json.load(open(na_path)) if os.path.exists(na_path) else {}
    checks = []
    not_app = []
    for p in props:
        pid = p['id']
        if pid in CLAIMED:
            text, note, ref, tech = CLAIMED[pid]
            checks.append(dict(
                property_id=pid,
                quick_cmd='./check %s --tier quick' % pid,
                thorough_cmd='./check %s --tier thorough' % pid,
                evidence_file='/verif/evidence/%s.json' % pid,
                replay_cmd_template='./check %s --replay {path}' % pid,
                engine='symx',
                level_claimed=dict(category='other', text=text, design_ref='DESIGN.md section ' + ref),
                level_note=note,
                technique=tech or TECH,
            ))
        else:
            not_app.append(dict(property_id=pid, reason=na.get(pid, 'check not built yet in this round (solver-based harness pending; see DESIGN.md section 3)')))
    m = dict(
        version=1,
        setup_cmd='./setup.sh',
        hooks=dict(guard='GHEDESIGNER_VERIF', enable='none needed: module-level shadowing at import time, no source hooks',
                   baseline_off_cmd='cd /repo && /venv/bin/python -m pytest -ra -q -p no:cacheprovider --timeout=900 --continue-on-collection-errors',
                   source_commits=[], add_only=True),
        engines=[dict(name='symx', path='/verif/symx', serves_properties=sorted(CLAIMED),
                      kind_free_text='dynamic symbolic execution of the real Python code by z3 proxy values (fork at every symbolic branch, '
                                     'DFS by decision-prefix replay), VC = path condition and negated property, models replayed natively; '
                                     'cvc5 binary as second solver on exported VCs')],
        checks=checks,
        notes='All checks: exit 0 held / 1 VIOLATION (natively reproduced) / 2 inconclusive (unknown, budget) / 3 harness error. '
              'Known findings: /verif/known_findings.json. Seeded changes: /verif/seeded/.',
        not_applicable=not_app,
    )
    json.dump(m, open(os.path.join(V, 'MANIFEST.json'), 'w'), indent=1)
    print('MANIFEST: %d checks, %d not_applicable' % (len(checks), len(not_app)))


if __name__ == '__main__':
    main()
