#!/bin/bash
# tools/run_all.sh [tier] : run every claimed check in sequence, summary on stdout
TIER=${1:-quick}
cd /verif
for id in $(python3 -c "import json; print(' '.join(c['property_id'] for c in json.load(open('MANIFEST.json'))['checks']))"); do
  t0=$(date +%s)
  out=$(./check $id --tier $TIER 2>&1); rc=$?
  t1=$(date +%s)
  echo "$id rc=$rc wall=$((t1-t0))s $(echo "$out" | grep -c '^VIOLATION') violations $(echo "$out" | grep -c '^KNOWN-FINDING') known | $(echo "$out" | tail -1 | cut -c1-110)"
done
