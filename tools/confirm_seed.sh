#!/bin/bash
# tools/confirm_seed.sh <worktree> <name> <test files...> : confirm a seeded change (demo fails with / passes without; tests pass with)
WT=$1; NAME=$2; shift 2
LOG=/root/scratch/seedlogs/$NAME.log
cd $WT || exit 2
{
echo "== $NAME in $WT"; git diff --stat -- ghedesigner
echo "-- demo WITH change"; PYTHONPATH=$WT timeout 1800 /venv/bin/python out/demo.py > out/demo_with.txt 2>&1; echo "exit $?"; tail -3 out/demo_with.txt
git diff -- ghedesigner > out/.confirm.diff; git apply -R out/.confirm.diff
echo "-- demo WITHOUT change"; PYTHONPATH=$WT timeout 1800 /venv/bin/python out/demo.py > out/demo_without.txt 2>&1; echo "exit $?"; tail -3 out/demo_without.txt
git apply out/.confirm.diff; rm -f out/.confirm.diff
echo "-- tests WITH change: $@"
PYTHONPATH=$WT /venv/bin/python -m pytest -q -p no:cacheprovider -n 4 --timeout=2400 "$@" 2>&1 | tail -4
} > $LOG 2>&1
