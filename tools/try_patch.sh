#!/bin/bash
# tools/try_patch.sh <ID> <patch.diff> [check args...] : run a check against a scratch copy of /repo with the patch applied
ID=$1; PATCH=$(readlink -f $2); shift 2
D=/root/scratch/patched.$$
mkdir -p $D && cp -r /repo/ghedesigner /repo/demos $D/ && rm -rf $D/ghedesigner/tests/test_outputs $D/ghedesigner/tests/test_logs
(cd $D && patch -p1 -s < $PATCH) || { rm -rf $D; exit 9; }
cd /verif && VERIF_REPO=$D ./check $ID --no-evidence "$@" 2>/dev/null | cut -c1-300 | grep -v "^  observed" | tail -6
rm -rf $D
