#!/bin/bash
# Build the overlay interpreter used by every check: /venv's packages (numpy, scipy, pygfunction,
# jsonschema, click: what /repo itself runs on) + z3-solver / cvc5 / crosshair-tool from the offline
# wheelhouse.  Nothing is fetched.  Idempotent; re-run by ./check when .venv is missing.
set -e
cd "$(dirname "$0")"
V=.venv
if [ -x $V/bin/python ] && $V/bin/python -c 'import z3, numpy, scipy, pygfunction' 2>/dev/null; then
  exit 0
fi
rm -rf $V
/venv/bin/python -m venv $V
SP=$($V/bin/python -c 'import sysconfig; print(sysconfig.get_paths()["purelib"])')
echo "import site; site.addsitedir('/venv/lib/python3.12/site-packages')" > $SP/_base.pth
PIP_NO_INDEX=1 $V/bin/python -m pip install -q --no-index --find-links /opt/veriftools/wheels z3-solver >/dev/null
# optional extras (second opinion only); failures here do not break the checks
PIP_NO_INDEX=1 $V/bin/python -m pip install -q --no-index --find-links /opt/veriftools/wheels crosshair-tool >/dev/null 2>&1 || true
$V/bin/python -c 'import z3, numpy, scipy, pygfunction; print("verif venv ok: z3", z3.get_version_string())'
