"""SYMX - dynamic symbolic execution of real, unmodified Python functions with z3 proxy values.

The functions under analysis run natively in CPython on `Sym` / `SymBool` proxies.  Every
conversion of a `SymBool` to a Python bool is a fork point: the path condition (PC) lives in an
incremental z3 solver, both sides are checked, and the side not taken is queued and explored later
by deterministic replay of the decision prefix (DFS).  At the end of each path the harness returns
the property as a SymBool and the engine asks  PC /\\ not(property).

  unsat on every path        -> property holds for all inputs within the stated bounds
  sat                        -> model -> native replay by the caller (see runner.py)
  unknown / budget exhausted -> inconclusive, never success

Numeric model: Python int -> z3 Int, Python float -> z3 Real (exact rational value of the float).
See DESIGN.md section 2.2.
"""
import fractions
import math
import time

import z3

import sys
sys.set_int_max_str_digits(0)


OPTIONS = {}


class Unsupported(BaseException):
    """Operation outside the numeric model, or solver returned unknown: path is inconclusive."""


class PathAbort(BaseException):
    """Current path is infeasible / pruned by an assumption."""


class BudgetExceeded(BaseException):
    pass


# ------------------------------------------------------------------------------------------------
class Engine:
    cur = None

    def __init__(self, timeout_ms=30000, max_paths=200000, max_seconds=None, known_regions=None):
        self.timeout_ms = timeout_ms
        self.max_paths = max_paths
        self.max_seconds = max_seconds
        self.known_regions = known_regions or []  # list of (finding_id, callable(inputs)->z3 Bool)
        self.stats = dict(paths=0, reached=0, pruned=0, queries=0, solver_s=0.0, unknown=0,
                          nontrivial=0, decisions=0, vcs=0, vcs_unsat=0, unsupported=0)
        self.samples = []
        self.smt2_samples = []
        self.keep_smt2 = 0
        self.fixed = None      # concolic re-run: named inputs pinned to the values of a model

    # -- solver helpers ---------------------------------------------------------------------------
    def _check(self, *extra):
        t = time.time()
        if extra:
            self.solver.push()
            for x in extra:
                self.solver.add(x)
        r = self.solver.check()
        m = None
        if r == z3.sat:
            m = self.solver.model()
        if extra:
            self.solver.pop()
        if r == z3.unknown:
            # incremental solving under a time limit occasionally gives up on queries a fresh solver decides at once (and a loaded
            # machine eats the budget): one retry from scratch with four times the budget before the answer counts as unknown
            s2 = z3.Solver()
            s2.set('timeout', int(self.timeout_ms * 4))
            for a in self.solver.assertions():
                s2.add(a)
            for x in extra:
                s2.add(x)
            r = s2.check()
            self.stats['retries'] = self.stats.get('retries', 0) + 1
            if r == z3.sat:
                m = s2.model()
        self.stats['queries'] += 1
        self.stats['solver_s'] += time.time() - t
        return r, m

    def add(self, c):
        """Add a constraint to the PC (definitions, assumptions)."""
        self.solver.add(c)
        self.pc.append(c)
        self.model = None
        if isinstance(c, z3.BoolRef):
            self._bound_update(z3.simplify(c))

    def assume(self, cond):
        cond = tobool(cond)
        if isinstance(cond, bool):
            if not cond:
                self.stats['pruned'] += 1
                raise PathAbort()
            return
        self.add(cond)

    def _refresh_model(self):
        if self.model is None:
            r, m = self._check()
            if r == z3.unsat:
                self.stats['pruned'] += 1
                raise PathAbort()
            if r == z3.unknown:
                self.stats['unknown'] += 1
                raise Unsupported('solver unknown on path condition')
            self.model = m
        return self.model

    # -- bound cache: consequences of the PC of the form lo </<= x </<= hi for single variables.  Conditions that are
    #    implied (or refuted) by these bounds are answered without a solver call; every fork and every verification
    #    condition still goes to z3.  Sound because the cached bounds are themselves entailed by the PC.
    def _atom(self, c):
        """(var_name, op, Fraction) for x<=c, x>=c, x<c, x>c on a single Real/Int variable; else None"""
        neg = False
        if z3.is_not(c):
            neg, c = True, c.arg(0)
        if not (z3.is_le(c) or z3.is_ge(c) or z3.is_lt(c) or z3.is_gt(c)):
            return None
        a, b = c.arg(0), c.arg(1)
        op = '<=' if z3.is_le(c) else '>=' if z3.is_ge(c) else '<' if z3.is_lt(c) else '>'
        if is_num(a) and z3.is_const(b) and not is_num(b):
            a, b = b, a
            op = {'<=': '>=', '>=': '<=', '<': '>', '>': '<'}[op]
        if not (z3.is_const(a) and not is_num(a) and is_num(b) and a.decl().kind() == z3.Z3_OP_UNINTERPRETED):
            return None
        if neg:
            op = {'<=': '>', '>=': '<', '<': '>=', '>': '<='}[op]
        return a.decl().name(), op, numval(b)

    def _atom_eval(self, at):
        name, op, c = at
        b = self.bounds.get(name)
        if b is None:
            return None
        lo, lo_s, hi, hi_s = b
        if op == '<=':
            if hi is not None and hi <= c:
                return True
            if lo is not None and (lo > c or (lo == c and lo_s)):
                return False
        elif op == '<':
            if hi is not None and (hi < c or (hi == c and hi_s)):
                return True
            if lo is not None and lo >= c:
                return False
        elif op == '>=':
            if lo is not None and lo >= c:
                return True
            if hi is not None and (hi < c or (hi == c and hi_s)):
                return False
        elif op == '>':
            if lo is not None and (lo > c or (lo == c and lo_s)):
                return True
            if hi is not None and hi <= c:
                return False
        return None

    def _bound_eval(self, cond):
        at = self._atom(cond)
        if at is not None:
            return self._atom_eval(at)
        if z3.is_and(cond):
            vals = []
            for ch in cond.children():
                a = self._atom(ch)
                v = self._atom_eval(a) if a is not None else None
                if v is False:
                    return False
                vals.append(v)
            if all(v is True for v in vals):
                return True
        return None

    def _bound_update(self, c):
        """record the bound expressed by a constraint that has just been added to the PC"""
        if z3.is_and(c):
            for ch in c.children():
                self._bound_update(ch)
            return
        at = self._atom(c)
        if at is None:
            return
        name, op, v = at
        lo, lo_s, hi, hi_s = self.bounds.get(name, (None, False, None, False))
        if op in ('<=', '<'):
            strict = op == '<'
            if hi is None or v < hi or (v == hi and strict and not hi_s):
                hi, hi_s = v, strict
        else:
            strict = op == '>'
            if lo is None or v > lo or (v == lo and strict and not lo_s):
                lo, lo_s = v, strict
        self.bounds[name] = (lo, lo_s, hi, hi_s)

    def decide(self, cond):
        """cond: z3 BoolRef -> python bool, forking when both sides are feasible."""
        cond = z3.simplify(cond)
        if z3.is_true(cond):
            return True
        if z3.is_false(cond):
            return False
        bv = self._bound_eval(cond)      # deterministic along a path, hence identical when a prefix is replayed
        if bv is not None:
            self.stats['cached'] = self.stats.get('cached', 0) + 1
            return bv
        self.stats['decisions'] += 1
        k = len(self.trace)
        if k < len(self.prefix):
            d = self.prefix[k]
            self.trace.append(d)
            c = cond if d else z3.Not(cond)
            self.solver.add(c)
            self.pc.append(c)
            self._bound_update(z3.simplify(c))
            self.model = None
            return d
        if self.max_seconds is not None and time.time() - self.t0 > self.max_seconds:
            raise BudgetExceeded()
        m = self._refresh_model()
        v = m.eval(cond, model_completion=True)
        if z3.is_true(v):
            # true side feasible (witnessed by the current model); test the other side
            r, _ = self._check(z3.Not(cond))
            if r == z3.unknown:
                self.stats['unknown'] += 1
                raise Unsupported('solver unknown at branch: %s' % cond.sexpr()[:300])
            if r == z3.sat:
                self.work.append(self.trace + [False])
            d = True
        elif z3.is_false(v):
            r, m2 = self._check(cond)
            if r == z3.unknown:
                self.stats['unknown'] += 1
                raise Unsupported('solver unknown at branch: %s' % cond.sexpr()[:300])
            if r == z3.sat:
                self.work.append(self.trace + [False])
                d = True
                self.model = m2
            else:
                d = False
        else:
            rt, mt = self._check(cond)
            rf, _ = self._check(z3.Not(cond))
            if z3.unknown in (rt, rf):
                self.stats['unknown'] += 1
                raise Unsupported('solver unknown at branch: %s' % cond.sexpr()[:300])
            if rt == z3.sat and rf == z3.sat:
                self.work.append(self.trace + [False])
                d = True
                self.model = mt
            elif rt == z3.sat:
                d = True
                self.model = mt
            elif rf == z3.sat:
                d = False
                self.model = None
            else:
                self.stats['pruned'] += 1
                raise PathAbort()
        self.trace.append(d)
        c = cond if d else z3.Not(cond)
        self.solver.add(c)
        self.pc.append(c)
        self._bound_update(z3.simplify(c))
        return d

    def concretize_int(self, term):
        term = z3.simplify(term)
        if z3.is_int_value(term):
            return term.as_long()
        while True:
            m = self._refresh_model()
            v = m.eval(term, model_completion=True).as_long()
            if self.decide(term == v):
                return v

    def determined_value(self, term):
        """If the path condition fixes the value of `term`, return it (Fraction); otherwise None."""
        term = z3.simplify(term)
        if is_num(term):
            return numval(term)
        key = 'det:' + term.sexpr()
        if key in self.memo and self.memo[key][0] == len(self.pc):
            return self.memo[key][1]
        m = self._refresh_model()
        v = m.eval(term, model_completion=True)
        if not is_num(v):
            return None
        r, _ = self._check(term != v)
        out = v.as_fraction() if r == z3.unsat else None
        self.memo[key] = (len(self.pc), out)
        return out

    def fresh(self, name, sort='real'):
        self.n_fresh += 1
        nm = '%s!%d' % (name, self.n_fresh)
        return z3.Real(nm) if sort == 'real' else z3.Int(nm)

    # -- named inputs -----------------------------------------------------------------------------
    def real(self, name, lo=None, hi=None):
        v = z3.Real(name)
        self.inputs[name] = v
        if self.fixed is not None and name in self.fixed:
            ex = getattr(self, 'fixed_exact', None) or {}
            self.add(v == (z3.RealVal(ex[name]) if name in ex else lift(float(self.fixed[name]))))
        if lo is not None:
            self.add(v >= lift(lo))
        if hi is not None:
            self.add(v <= lift(hi))
        return Sym(v)

    def int(self, name, lo=None, hi=None):
        v = z3.Int(name)
        self.inputs[name] = v
        if self.fixed is not None and name in self.fixed:
            self.add(v == int(self.fixed[name]))
        if lo is not None:
            self.add(v >= lo)
        if hi is not None:
            self.add(v <= hi)
        return Sym(v)

    def boolean(self, name):
        v = z3.Bool(name)
        self.inputs[name] = v
        if self.fixed is not None and name in self.fixed:
            self.add(v == bool(self.fixed[name]))
        return SymBool(v)

    def model_values(self, model):
        out = {}
        exact = {}
        self.notes.pop('_exact', None)
        for name, v in self.inputs.items():
            val = model.eval(v, model_completion=True)
            out[name] = z3_to_py(val)
            if z3.is_rational_value(val) and not z3.is_int_value(val):
                f = val.as_fraction()
                if float(f) != f:                      # not representable in binary64: keep the exact value for the concolic re-run
                    exact[name] = '%d/%d' % (f.numerator, f.denominator)
        if exact:
            self.notes['_exact'] = exact
        return out

    # -- main loop --------------------------------------------------------------------------------
    def run(self, fn):
        """fn(engine) -> property (SymBool / bool).  Returns list of result tuples:
        ('cex', model_dict, trace, known_id|None) | ('unknown', msg) | ('unsupported', msg) |
        ('budget', msg) | ('error', msg)"""
        self.work = [[]]
        self.t0 = time.time()
        results = []
        while self.work:
            self.prefix = self.work.pop()
            self.trace = []
            self.pc = []
            self.inputs = {}
            self.n_fresh = 0
            self.memo = {}
            self.model = None
            self.notes = {}
            self.prefer = []
            self.bounds = {}
            self.solver = z3.Solver()
            self.solver.set('timeout', self.timeout_ms)
            Engine.cur = self
            if self.stats['paths'] >= self.max_paths or (
                    self.max_seconds is not None and time.time() - self.t0 > self.max_seconds):
                results.append(('budget', 'path/time budget exhausted with %d prefixes pending' % (len(self.work) + 1)))
                break
            self.stats['paths'] += 1
            try:
                prop = fn(self)
            except PathAbort:
                continue
            except BudgetExceeded:
                results.append(('budget', 'time budget exhausted inside a path'))
                break
            except Unsupported as ex:
                self.stats['unsupported'] += 1
                results.append(('unsupported', str(ex)[:400]))
                continue
            except Exception as ex:  # escaping Python exception on a feasible path = property failure
                import traceback
                tb = traceback.extract_tb(ex.__traceback__)
                where = ['%s:%d %s' % (f.filename.split('/')[-1], f.lineno, f.name) for f in tb[-4:]]
                self.notes['exception'] = '%s: %s' % (type(ex).__name__, str(ex)[:200])
                self.notes['exception_where'] = where
                prop = False
            if len(self.trace) > 0:
                self.stats['nontrivial'] += 1
            p = tobool(prop)
            # reachability: the PC itself must be satisfiable for the path to count
            r, m = self._check()
            if r == z3.unsat:
                self.stats['pruned'] += 1
                continue
            if r == z3.unknown:
                self.stats['unknown'] += 1
                results.append(('unknown', 'PC satisfiability unknown at path end'))
                continue
            self.stats['reached'] += 1
            if len(self.samples) < 4:
                self.samples.append(dict(decisions=len(self.trace),
                                         inputs=self.model_values(m),
                                         pc_tail=[c.sexpr()[:160] for c in self.pc[-3:]]))
            if isinstance(p, bool):
                if p:
                    continue
                neg = z3.BoolVal(True)
            else:
                neg = z3.Not(p)
            self.stats['vcs'] += 1
            regions = [(fid, tobool(f(self.inputs))) for fid, f in self.known_regions]
            regions = [(fid, reg) for fid, reg in regions if not isinstance(reg, bool) or reg]
            excl = [z3.Not(reg) if not isinstance(reg, bool) else z3.BoolVal(not reg) for _, reg in regions]
            r, m = self._check(neg, *excl)
            if r == z3.sat and self.prefer:
                # the harness prefers counterexamples away from abstraction slack (e.g. test points far from every edge)
                rp, mp = self._check(neg, *(excl + list(self.prefer)))
                if rp == z3.sat:
                    m = mp
            if r == z3.unsat and len(self.smt2_samples) < self.keep_smt2:
                self.solver.push()
                self.solver.add(neg, *excl)
                self.smt2_samples.append(self.solver.to_smt2())
                self.solver.pop()
            if r == z3.sat:
                results.append(('cex', self.model_values(m), list(self.trace), None, dict(self.notes)))
            elif r == z3.unknown:
                self.stats['unknown'] += 1
                results.append(('unknown', 'VC unknown: ' + neg.sexpr()[:300]))
            else:
                self.stats['vcs_unsat'] += 1
            for fid, reg in regions:
                rr, mm = self._check(neg, reg if not isinstance(reg, bool) else z3.BoolVal(reg))
                if rr == z3.sat:
                    results.append(('cex', self.model_values(mm), list(self.trace), fid, dict(self.notes)))
                elif rr == z3.unknown:
                    self.stats['unknown'] += 1
                    results.append(('unknown', 'VC (known region %s) unknown' % fid))
        self.stats['wall_s'] = time.time() - self.t0
        return results


def E():
    return Engine.cur


def z3_to_py(val):
    if z3.is_int_value(val):
        return val.as_long()
    if z3.is_rational_value(val):
        f = val.as_fraction()
        return float(f) if f.denominator != 1 else float(f.numerator)
    if z3.is_algebraic_value(val):
        return float(val.approx(20).as_fraction())
    if z3.is_true(val):
        return True
    if z3.is_false(val):
        return False
    return str(val)


def tobool(x):
    if isinstance(x, SymBool):
        return x.t
    if isinstance(x, Sym):
        return (x != 0).t
    return bool(x) if not isinstance(x, z3.BoolRef) else x


def lift(x):
    if isinstance(x, Sym):
        return x.t
    if isinstance(x, z3.ExprRef):
        return x
    if isinstance(x, bool):
        return z3.IntVal(int(x))
    if isinstance(x, int):
        return z3.IntVal(x)
    if isinstance(x, float):
        if x != x or x in (float('inf'), float('-inf')):
            raise Unsupported('non-finite float %r' % x)
        f = fractions.Fraction(x)
        return z3.RealVal(str(f))
    if isinstance(x, fractions.Fraction):
        return z3.RealVal(str(x))
    if hasattr(x, 'item') and not isinstance(x, (list, tuple)):
        return lift(x.item())
    raise Unsupported('lift %r' % type(x))


def toreal(t):
    return z3.ToReal(t) if t.sort() == z3.IntSort() else t


def coerce(a, b):
    a, b = lift(a), lift(b)
    if a.sort() != b.sort():
        a, b = toreal(a), toreal(b)
    return a, b


def is_sym(x):
    return isinstance(x, (Sym, SymBool))


def is_num(t):
    return z3.is_rational_value(t) or z3.is_int_value(t)


def numval(t):
    """exact value (Fraction) of a z3 numeral of either sort"""
    if z3.is_int_value(t):
        return fractions.Fraction(t.as_long())
    return t.as_fraction()


# ------------------------------------------------------------------------------------------------
class SymBool:
    __slots__ = ('t',)

    def __init__(self, t):
        if isinstance(t, bool):
            t = z3.BoolVal(t)
        self.t = t

    def __bool__(self):
        return E().decide(self.t)

    def _o(self, o):
        if isinstance(o, SymBool):
            return o.t
        if isinstance(o, Sym):
            return (o != 0).t
        return z3.BoolVal(bool(o))

    def __and__(self, o): return SymBool(z3.And(self.t, self._o(o)))
    __rand__ = __and__
    def __or__(self, o): return SymBool(z3.Or(self.t, self._o(o)))
    __ror__ = __or__
    def __invert__(self): return SymBool(z3.Not(self.t))
    def implies(self, o): return SymBool(z3.Implies(self.t, self._o(o)))

    def __eq__(self, o):
        if isinstance(o, (SymBool, bool)):
            return SymBool(self.t == self._o(o))
        return bool(self) == o

    def __ne__(self, o):
        if isinstance(o, (SymBool, bool)):
            return SymBool(self.t != self._o(o))
        return bool(self) != o

    def __hash__(self):
        return id(self)

    def __repr__(self):
        return 'SymBool(%s)' % self.t


TRUE = SymBool(z3.BoolVal(True))


def all_of(xs):
    ts = []
    for x in xs:
        t = tobool(x)
        ts.append(z3.BoolVal(t) if isinstance(t, bool) else t)
    return SymBool(z3.And(ts) if ts else z3.BoolVal(True))


def any_of(xs):
    ts = []
    for x in xs:
        t = tobool(x)
        ts.append(z3.BoolVal(t) if isinstance(t, bool) else t)
    return SymBool(z3.Or(ts) if ts else z3.BoolVal(False))


class Sym:
    __slots__ = ('t',)

    def __init__(self, t):
        self.t = t

    @property
    def is_int(self):
        return self.t.sort() == z3.IntSort()

    def _bin(self, o, f):
        if isinstance(o, (list, tuple)) or hasattr(o, '__array__'):
            return NotImplemented
        a, b = coerce(self, o)
        return Sym(z3.simplify(f(a, b)))

    def _rbin(self, o, f):
        if isinstance(o, (list, tuple)) or hasattr(o, '__array__'):
            return NotImplemented
        a, b = coerce(o, self)
        return Sym(z3.simplify(f(a, b)))

    def __add__(self, o): return self._bin(o, lambda a, b: a + b)
    def __radd__(self, o): return self._rbin(o, lambda a, b: a + b)
    def __sub__(self, o): return self._bin(o, lambda a, b: a - b)
    def __rsub__(self, o): return self._rbin(o, lambda a, b: a - b)
    def __mul__(self, o): return self._bin(o, lambda a, b: a * b)
    def __rmul__(self, o): return self._rbin(o, lambda a, b: a * b)
    def __neg__(self): return Sym(z3.simplify(-self.t))
    def __pos__(self): return self

    def __abs__(self):
        t = z3.simplify(self.t)
        if is_num(t):
            return Sym(t if numval(t) >= 0 else z3.simplify(-t))
        e = E()
        if e is not None and getattr(e, 'solver', None) is not None:
            # resolve the sign when the path condition already implies it (no fork); otherwise keep it symbolic
            r, _ = e._check(t < 0)
            if r == z3.unsat:
                return Sym(t)
            r2, _ = e._check(t > 0)
            if r2 == z3.unsat:
                return Sym(z3.simplify(-t))
        return Sym(z3.If(t >= 0, t, -t))

    @staticmethod
    def _truediv(a, b):
        if isinstance(a, (list, tuple)) or isinstance(b, (list, tuple)) or hasattr(a, '__array__') or hasattr(b, '__array__'):
            return NotImplemented
        a, b = coerce(a, b)
        a, b = toreal(a), toreal(b)
        b = z3.simplify(b)
        a = z3.simplify(a)
        if is_num(b):
            if numval(b) == 0:
                raise ZeroDivisionError('division by zero')
            return Sym(z3.simplify(a / b))
        if bool(SymBool(b == 0)):
            raise ZeroDivisionError('symbolic division by zero')
        return Sym(_divide(a, b))

    def __truediv__(self, o): return Sym._truediv(self, o)
    def __rtruediv__(self, o): return Sym._truediv(o, self)

    @staticmethod
    def _floordiv(a, b):
        a, b = coerce(a, b)
        if bool(SymBool(b == 0)):
            raise ZeroDivisionError('floor division by zero')
        if a.sort() == z3.IntSort():
            if bool(SymBool(b > 0)):
                return Sym(z3.simplify(a / b))  # z3 Int div floors for a positive divisor
            raise Unsupported('int floor division by a non-positive divisor')
        b = z3.simplify(b)
        if is_num(b):
            return Sym(z3.simplify(z3.ToReal(z3.ToInt(a / b))))
        q = _divide(z3.simplify(a), b)
        return Sym(z3.ToReal(z3.ToInt(q)))

    def __floordiv__(self, o): return Sym._floordiv(self, o)
    def __rfloordiv__(self, o): return Sym._floordiv(o, self)

    @staticmethod
    def _mod(a, b):
        a, b = coerce(a, b)
        if a.sort() == z3.IntSort():
            if not bool(SymBool(b > 0)):
                raise Unsupported('mod by non-positive')
            return Sym(z3.simplify(a % b))
        if not is_num(z3.simplify(b)):
            raise Unsupported('real mod by symbolic')
        return Sym(z3.simplify(a - b * z3.ToReal(z3.ToInt(a / b))))

    def __mod__(self, o): return Sym._mod(self, o)
    def __rmod__(self, o): return Sym._mod(o, self)

    def __pow__(self, o):
        if isinstance(o, Sym):
            ot = z3.simplify(o.t)
            if is_num(ot):
                f = numval(ot)
                o = int(f) if f.denominator == 1 else float(f)
        if isinstance(o, float) and o.is_integer():
            o = int(o)
        if isinstance(o, int) and 0 <= o <= 8:
            r = 1
            for _ in range(o):
                r = self * r
            return r
        if o == 0.5:
            return sym_sqrt(self)
        raise Unsupported('pow %r' % (o,))

    def __lt__(self, o): a, b = coerce(self, o); return SymBool(a < b)
    def __le__(self, o): a, b = coerce(self, o); return SymBool(a <= b)
    def __gt__(self, o): a, b = coerce(self, o); return SymBool(a > b)
    def __ge__(self, o): a, b = coerce(self, o); return SymBool(a >= b)

    def __eq__(self, o):
        if o is None or isinstance(o, str):
            return False
        try:
            a, b = coerce(self, o)
        except Unsupported:
            return False
        return SymBool(a == b)

    def __ne__(self, o):
        if o is None or isinstance(o, str):
            return True
        try:
            a, b = coerce(self, o)
        except Unsupported:
            return True
        return SymBool(a != b)

    def __hash__(self):
        return id(self)

    def __bool__(self):
        return bool(self != 0)

    def __floor__(self): return sym_floor(self)
    def __ceil__(self): return sym_ceil(self)

    def __round__(self, n=None):
        if n is not None:
            if not isinstance(n, int) or n < 0 or n > 12:
                raise Unsupported('round(x, n) on symbolic for this n')
            scale = 10 ** n
            r = round(Sym(z3.simplify(toreal(self.t) * scale)))          # half-to-even on the scaled value (reals, not binary64 decimals)
            return Sym(z3.simplify(z3.ToReal(r.t) / scale))
        if self.is_int:
            return self
        # Python 3: round half to even
        f = z3.ToInt(self.t)
        frac = self.t - z3.ToReal(f)
        half = z3.RealVal('1/2')
        return Sym(z3.simplify(z3.If(frac < half, f, z3.If(frac > half, f + 1, z3.If(f % 2 == 0, f, f + 1)))))

    def __index__(self):
        if not self.is_int:
            raise Unsupported('index of a real')
        return E().concretize_int(self.t)

    def __int__(self):
        t = z3.simplify(self.t)
        if z3.is_int_value(t):
            return t.as_long()
        raise Unsupported('int() on symbolic - shadow the module-level int')

    def __float__(self):
        t = z3.simplify(self.t)
        if is_num(t):
            return float(numval(t))
        raise Unsupported('float() on symbolic (C boundary)')

    # numpy object-dtype ufunc hooks
    def log(self): return sym_log(self)
    def sqrt(self): return sym_sqrt(self)

    def __repr__(self):
        return 'Sym(%s)' % str(self.t)[:120]

    def __format__(self, spec):
        return '<sym>'


def _divide(a, b):
    """a / b for z3 Real terms with symbolic b (already proven non-zero on this path).
    Syntactic shortcuts first (x/x, If-distribution), then reciprocal variables per atomic factor,
    normalised with simplify(som=True) so that polynomial identities become syntactic."""
    if a.eq(b):
        return z3.RealVal(1)
    if z3.simplify(a + b).eq(z3.RealVal(0)):
        return z3.RealVal(-1)
    if z3.is_app_of(a, z3.Z3_OP_ITE):
        c, x, y = a.children()
        return z3.If(c, _divide(z3.simplify(x), b), _divide(z3.simplify(y), b))
    e = E()
    if OPTIONS.get('div_mode') == 'quot':
        # quotient variable q with q*b == a: the product q*b expands into the same monomials wherever the quotient is
        # multiplied by b again, so identities of the form (a/b)*b == a are linear over the monomials
        key = 'quot:' + a.sexpr() + '/' + b.sexpr()
        if key not in e.memo:
            q = e.fresh('quot')
            e.add(z3.simplify(q * b, som=True) == z3.simplify(a, som=True))
            e.memo[key] = q
        return e.memo[key]
    out = a
    stack = [b]
    while stack:
        f = stack.pop()
        if z3.is_mul(f):
            stack.extend(f.children())
            continue
        if is_num(f):
            out = out / f
            continue
        key = 'recip:' + f.sexpr()
        if key not in e.memo:
            r = e.fresh('inv')
            e.add(r * f == 1)
            e.memo[key] = r
            e.memo['invof:' + r.decl().name()] = f
        out = out * e.memo[key]
    return z3.simplify(out, som=True)


def sym_floor(x):
    if not isinstance(x, Sym):
        return math.floor(x)
    if x.is_int:
        return x
    return Sym(z3.simplify(z3.ToInt(x.t)))


def sym_ceil(x):
    if not isinstance(x, Sym):
        return math.ceil(x)
    if x.is_int:
        return x
    return Sym(z3.simplify(-z3.ToInt(-x.t)))


def sym_int(x):
    """Python int(): truncation toward zero."""
    if isinstance(x, SymBool):
        return Sym(z3.If(x.t, 1, 0))
    if not isinstance(x, Sym):
        return int(x)
    if x.is_int:
        return x
    t = z3.simplify(x.t)
    if is_num(t):
        return Sym(z3.IntVal(int(numval(t))))
    if bool(x >= 0):
        return sym_floor(x)
    return sym_ceil(x)


def sym_float(x):
    if isinstance(x, Sym):
        return Sym(toreal(x.t))
    return float(x)


def sym_abs(x):
    if isinstance(x, Sym):
        return abs(x)
    return abs(x)


def _fold_extreme(args, kw, builtin, pick):
    if len(args) == 1 and not kw:
        args = tuple(args[0])
        if not args:
            raise ValueError('%s() arg is an empty sequence' % builtin.__name__)
    if kw or not any(isinstance(a, Sym) for a in args):
        return builtin(args, **kw) if len(args) > 0 else builtin(*args, **kw)
    r = args[0]
    for a in args[1:]:
        x, y = coerce(a, r)
        r = Sym(z3.simplify(z3.If(pick(x, y), x, y)))
    return r


def sym_max(*args, **kw):
    return _fold_extreme(args, kw, max, lambda x, y: x > y)


def sym_min(*args, **kw):
    return _fold_extreme(args, kw, min, lambda x, y: x < y)


def sym_sqrt_exact(x):
    """sqrt with its defining equation d*d == x (nonlinear; use only where probed to work)."""
    if not isinstance(x, Sym):
        return math.sqrt(x)
    e = E()
    t = z3.simplify(toreal(x.t))
    if is_num(t):
        return math.sqrt(float(numval(t)))
    key = 'sqrt:' + t.sexpr()
    if key in e.memo:
        return Sym(e.memo[key])
    if bool(SymBool(t < 0)):
        raise ValueError('math domain error')
    r = e.fresh('sqrt')
    e.add(z3.And(r >= 0, r * r == t))
    e.memo[key] = r
    return Sym(r)


def sym_sqrt(x):
    """sqrt abstraction: a memoised fresh non-negative real per argument term, without d*d==x
    (z3's nlsat answers unknown with the defining equation; geometry is supplied by lemmas)."""
    if not isinstance(x, Sym):
        return math.sqrt(x)
    e = E()
    t = z3.simplify(toreal(x.t))
    if is_num(t):
        return math.sqrt(float(numval(t)))
    key = 'sqrtabs:' + t.sexpr()
    if key in e.memo:
        return Sym(e.memo[key])
    if bool(SymBool(t < 0)):
        raise ValueError('math domain error')
    r = e.fresh('dist')
    e.add(r >= 0)
    e.add(z3.Implies(t == 0, r == 0))
    e.add(z3.Implies(t > 0, r > 0))
    e.memo[key] = r
    return Sym(r)


LN = z3.Function('LN', z3.RealSort(), z3.RealSort())


def sym_log(x):
    """log as an uninterpreted function with the product rule applied structurally to factors."""
    if not isinstance(x, Sym):
        return math.log(x)
    t = z3.simplify(toreal(x.t))
    if is_num(t):
        return math.log(float(numval(t)))
    if bool(SymBool(t <= 0)):
        raise ValueError('math domain error')
    return Sym(LN(t))


def _monomial_factors(m):
    """factors of a product term (flattened)"""
    out, stack = [], [m]
    while stack:
        f = stack.pop()
        if z3.is_mul(f):
            stack.extend(f.children())
        else:
            out.append(f)
    return out


def sym_log_product(x):
    """log with the product rule applied structurally.  The argument is brought to sum-of-monomials form; reciprocal
    variables (inv!k, standing for 1/base_k) and constant/atomic factors common to all monomials are pulled out:
        log(c * f * inv(g) * P) = log(c) + L(f) - L(g) + L(P)
    with L uninterpreted on normalised positive terms.  Sound for positive reals; positivity of each factor is decided."""
    if not isinstance(x, Sym):
        return math.log(x)
    e = E()
    t = z3.simplify(toreal(x.t), som=True)
    if is_num(t):
        return math.log(float(numval(t)))
    if bool(SymBool(t <= 0)):
        raise ValueError('math domain error')
    monos = list(t.children()) if z3.is_add(t) else [t]
    facs = [_monomial_factors(m) for m in monos]
    common = []
    for f in facs[0]:
        if is_num(f):
            continue
        if all(any(f.eq(g) for g in fl) for fl in facs[1:]):
            common.append(f)
    if len(monos) == 1:
        rest = None
        const = z3.RealVal(1)
        for f in facs[0]:
            if is_num(f):
                const = z3.simplify(const * f)
    else:
        # remove one occurrence of every common factor from each monomial
        new_monos = []
        for fl in facs:
            fl = list(fl)
            for c in common:
                for k, g in enumerate(fl):
                    if c.eq(g):
                        del fl[k]
                        break
            prod = z3.RealVal(1)
            for g in fl:
                prod = prod * g
            new_monos.append(prod)
        rest = z3.simplify(z3.Sum(new_monos), som=True)
        const = z3.RealVal(1)
    total = z3.RealVal(0)
    if not z3.simplify(const).eq(z3.RealVal(1)):
        c = numval(const)
        if c <= 0:
            return Sym(LN(t))
        total = total + z3.RealVal(repr(math.log(float(c))))
    for f in common:
        if z3.is_app_of(f, z3.Z3_OP_POWER):
            return Sym(LN(t))
        nm = f.decl().name() if z3.is_const(f) else None
        inv_of = e.memo.get('invof:' + nm) if nm else None
        if inv_of is not None:
            base, sgn = z3.simplify(inv_of, som=True), -1
        else:
            base, sgn = f, 1
        if bool(SymBool(base <= 0)):
            return Sym(LN(t))
        total = total + sgn * LN(base)
    if rest is not None:
        if is_num(rest):
            total = total + z3.RealVal(repr(math.log(float(numval(rest)))))
        else:
            total = total + LN(rest)
    return Sym(z3.simplify(total))


def sym_range(*args):
    cargs = []
    for a in args:
        cargs.append(a.__index__() if isinstance(a, Sym) else a)
    return range(*cargs)


def sym_len_shadow(n_by_id):
    """len() shadow: objects registered by id get a symbolic length."""
    def _len(x):
        if id(x) in n_by_id:
            return n_by_id[id(x)]
        return len(x)
    return _len


def sym_isinstance(obj, cls):
    """isinstance shadow: a Sym passes for float/int checks such as `isinstance(x, (int, float))`."""
    if isinstance(obj, Sym):
        cl = cls if isinstance(cls, tuple) else (cls,)
        if float in cl or int in cl:
            return True
    return isinstance(obj, cls)


def ite(c, a, b):
    c = tobool(c)
    if isinstance(c, bool):
        return a if c else b
    x, y = coerce(a, b)
    return Sym(z3.If(c, x, y))


def concrete(x):
    """float value of a concrete-valued Sym / number (raises Unsupported if symbolic)."""
    if isinstance(x, Sym):
        return float(x)
    return float(x)


def val(x):
    return Sym(lift(x))
