"""Runner: executes the units of one property in parallel worker processes, replays every
counterexample natively, matches known findings, writes evidence, prints the verdict.

exit 0  property held on everything explored (KNOWN-FINDING lines allowed)
exit 1  VIOLATION property=<id> replay=<path>   (reproduced natively)
exit 2  inconclusive (solver unknown / budget / unsupported operation / vacuous harness)
exit 3  harness error (a counterexample that does not reproduce natively, crash in a harness)
"""
import fnmatch
import hashlib
import importlib
import json
import multiprocessing as mp
import os
import sys
import time
import traceback

import z3

from . import engine as EN

VERIF = os.path.dirname(os.path.dirname(os.path.abspath(__file__)))
REPO = os.environ.get('VERIF_REPO', '/repo')

_SHADOWS = []


def shadow(module, name, value):
    """Module-level shadowing instead of source edits; recorded so that replays run unshadowed."""
    missing = object()
    old = module.__dict__.get(name, missing)
    _SHADOWS.append((module, name, old, missing))
    setattr(module, name, value)


def restore_shadows():
    while _SHADOWS:
        module, name, old, missing = _SHADOWS.pop()
        if old is missing:
            try:
                delattr(module, name)
            except AttributeError:
                pass
        else:
            setattr(module, name, old)


class Unit:
    def __init__(self, name, fn, replay=None, setup=None, funcs=(), bounds='', assumptions=(), stubs=(),
                 timeout_ms=30000, max_paths=200000, max_seconds=600, hard_seconds=None, params=None,
                 expect_cex=False):
        self.name = name
        self.fn = fn
        self.replay = replay
        self.setup = setup
        self.funcs = list(funcs)
        self.bounds = bounds
        self.assumptions = list(assumptions)
        self.stubs = list(stubs)
        self.timeout_ms = timeout_ms
        self.max_paths = max_paths
        self.max_seconds = max_seconds
        self.hard_seconds = hard_seconds or (max_seconds * 1.5 + 60)
        self.params = params or {}
        self.expect_cex = expect_cex  # reachability twin: MUST produce a counterexample


def load_known(prop):
    path = os.path.join(VERIF, 'known_findings.json')
    if not os.path.exists(path):
        return []
    data = json.load(open(path))
    return [f for f in data.get('findings', []) if f.get('property') == prop and f.get('status', 'open') == 'open']


def region_fn(expr):
    """Known-finding predicate: a Python expression over the unit's named inputs, evaluated on z3
    variables with And/Or/Not/Implies available.  Inapplicable (missing name) -> False."""
    def f(inputs):
        env = dict(inputs)
        env.update(And=z3.And, Or=z3.Or, Not=z3.Not, Implies=z3.Implies, If=z3.If)
        try:
            return eval(expr, {'__builtins__': {}}, env)  # noqa: S307 - committed file, not user input
        except NameError:
            return False
    return f


def _worker(modname, unit_index, tier, seed, q):
    t0 = time.time()
    out = dict(unit=None, status='error', results=[], stats={}, samples=[], msg='')
    try:
        sys.setrecursionlimit(20000)
        mod = importlib.import_module(modname)
        units = mod.units(tier, seed)
        u = units[unit_index]
        out['unit'] = u.name
        if u.setup:
            u.setup()
        known = [(f['id'], region_fn(f['when'])) for f in load_known(mod.PROPERTY)
                 if fnmatch.fnmatch(u.name, f.get('unit', '*')) and f.get('when')]
        eng = EN.Engine(timeout_ms=u.timeout_ms, max_paths=u.max_paths, max_seconds=u.max_seconds,
                        known_regions=known)
        eng.keep_smt2 = 2 if tier == 'thorough' else 1
        res = eng.run(u.fn)
        out['stats'] = eng.stats
        out['samples'] = eng.samples
        out['smt2'] = eng.smt2_samples
        restore_shadows()
        final = []
        n_cex = 0
        for r in res:
            if r[0] != 'cex':
                final.append(dict(kind=r[0], msg=r[1]))
                continue
            n_cex += 1
            _, model, trace, fid, notes = r
            item = dict(kind='cex', model=model, trace_len=len(trace), known=fid, notes=notes)
            if n_cex > 12:
                item['replayed'] = None
                item['info'] = 'replay skipped (more than 12 counterexamples in this unit)'
            else:
                native_info = None
                ok = None
                if u.replay is not None:
                    try:
                        ok, native_info = u.replay(model, notes)
                    except Exception as ex:  # noqa: BLE001
                        ok, native_info = False, 'replay crashed: %r\n%s' % (ex, traceback.format_exc()[-1500:])
                if ok is not None:
                    item['replayed'] = bool(ok)
                    item['info'] = native_info
                else:
                    # no native replay for this unit (or the native replay declares this counterexample outside its reach):
                    # concolic re-run - the same real code on proxies with every named input pinned to the model's value
                    # (floats as binary64 values); the counterexample is kept only if it shows up again
                    try:
                        eng2 = EN.Engine(timeout_ms=u.timeout_ms, max_paths=200, max_seconds=120)
                        eng2.fixed = dict(model)
                        eng2.fixed_exact = dict((notes or {}).get('_exact') or {})     # solver values that binary64 cannot hold are pinned exactly
                        if u.setup:
                            u.setup()
                        res2 = eng2.run(u.fn)
                        restore_shadows()
                        again = [x for x in res2 if x[0] == 'cex']
                        item['replayed'] = bool(again)
                        item['info'] = dict(replay='concolic (proxies, inputs pinned to the model values); no native replay for this counterexample',
                                            native=native_info, notes=again[0][4] if again else {})
                    except Exception as ex:  # noqa: BLE001
                        item['replayed'] = False
                        item['info'] = 'concolic replay crashed: %r' % (ex,)
            final.append(item)
        out['results'] = final
        out['status'] = 'done'
    except BaseException as ex:  # noqa: BLE001
        out['status'] = 'error'
        out['msg'] = '%r\n%s' % (ex, traceback.format_exc()[-3000:])
    out['wall_s'] = time.time() - t0
    q.put(out)


def cvc5_crosscheck(smt2_list, limit_s=20):
    """Second solver: re-check exported VCs (all expected unsat) with the cvc5 binary."""
    import shutil
    import subprocess
    import tempfile
    exe = shutil.which('cvc5')
    res = dict(checked=0, agree=0, disagree=0, no_answer=0)
    if not exe:
        return res
    for s in smt2_list:
        with tempfile.NamedTemporaryFile('w', suffix='.smt2', delete=False, dir='/dev/shm' if os.path.isdir('/dev/shm') else None) as f:
            f.write(s)
            fn = f.name
        try:
            p = subprocess.run([exe, '--tlimit=%d' % (limit_s * 1000), fn], capture_output=True, text=True, timeout=limit_s + 10)
            o = p.stdout.strip().splitlines()
            ans = o[0].strip() if o else ''
            res['checked'] += 1
            if '(error' in p.stdout or '(error' in p.stderr:
                res['no_answer'] += 1
            elif ans == 'unsat':
                res['agree'] += 1
            elif ans == 'sat':
                res['disagree'] += 1
            else:
                res['no_answer'] += 1
        except Exception:  # noqa: BLE001
            res['checked'] += 1
            res['no_answer'] += 1
        finally:
            os.unlink(fn)
    return res


def file_hashes(funcs):
    files = sorted({f.split(':')[0] for f in funcs})
    out = {}
    for f in files:
        p = os.path.join(REPO, 'ghedesigner', f)
        if os.path.exists(p):
            out[f] = hashlib.sha256(open(p, 'rb').read()).hexdigest()[:16]
    return out


def main(modname, argv=None):
    import argparse
    ap = argparse.ArgumentParser()
    ap.add_argument('--tier', default=os.environ.get('VERIF_TIER', 'quick'), choices=['quick', 'thorough'])
    ap.add_argument('--replay', default=None)
    ap.add_argument('--jobs', type=int, default=int(os.environ.get('VERIF_JOBS', '16')))
    ap.add_argument('--only', default=None, help='glob over unit names')
    ap.add_argument('--no-evidence', action='store_true')
    args = ap.parse_args(argv)
    seed = int(os.environ.get('VERIF_SEED', '0') or 0)
    mod = importlib.import_module(modname)
    prop = mod.PROPERTY
    t0 = time.time()

    if args.replay:
        rp = json.load(open(args.replay))
        units = mod.units(rp.get('tier', 'quick'), rp.get('seed', 0))
        u = [x for x in units if x.name == rp['unit']]
        if not u:
            print('unit %s not found' % rp['unit'])
            return 3
        ok, info = u[0].replay(rp['model'], rp.get('notes', {}))
        print(json.dumps(dict(reproduced=bool(ok), info=info), indent=1, default=str))
        if ok:
            print('VIOLATION property=%s replay=%s' % (prop, args.replay))
            return 1
        print('replay does not violate the property on this tree')
        return 0

    units = mod.units(args.tier, seed)
    idx = list(range(len(units)))
    if args.only:
        idx = [i for i in idx if fnmatch.fnmatch(units[i].name, args.only)]
    # run (worker re-creates the unit list; indices refer to the full list)
    sel_units = [units[i] for i in idx]
    ctx_outs = run_units_sel(modname, idx, sel_units, args.tier, seed, args.jobs)

    known = {}
    for f in load_known(prop):
        known.setdefault(f['id'], f)
    violations, known_hits, inconclusive, harness_err = [], {}, [], []
    tot = dict(paths=0, reached=0, pruned=0, queries=0, solver_s=0.0, unknown=0, nontrivial=0, decisions=0,
               vcs=0, vcs_unsat=0, unsupported=0)
    samples, unit_rows, smt2 = [], [], []
    for u, o in zip(sel_units, ctx_outs):
        st = o.get('stats') or {}
        for k in tot:
            tot[k] += st.get(k, 0)
        row = dict(unit=u.name, status=o['status'], paths=st.get('paths', 0), reached=st.get('reached', 0),
                   queries=st.get('queries', 0), solver_s=round(st.get('solver_s', 0.0), 3),
                   wall_s=round(o.get('wall_s', 0.0), 2), bounds=u.bounds)
        unit_rows.append(row)
        for s in (o.get('samples') or [])[:2]:
            samples.append(dict(unit=u.name, **s))
        smt2.extend(o.get('smt2') or [])
        if o['status'] != 'done':
            (inconclusive if o['status'] == 'timeout' else harness_err).append((u.name, o['status'], o.get('msg', '')))
            continue
        if st.get('reached', 0) == 0:
            inconclusive.append((u.name, 'vacuous', 'no path reached the assertion with a satisfiable path condition'))
        got_cex = False
        for r in o['results']:
            if r['kind'] != 'cex':
                inconclusive.append((u.name, r['kind'], r.get('msg', '')))
                continue
            got_cex = True
            if u.expect_cex:
                continue
            if r['replayed'] is False:
                harness_err.append((u.name, 'non-reproducing counterexample', json.dumps(r, default=str)[:1500]))
                continue
            if r['replayed'] is None and r.get('info', '').startswith('replay skipped'):
                continue
            if r['known']:
                known_hits.setdefault(r['known'], (u.name, r))
            else:
                violations.append((u.name, r))
        if u.expect_cex and not got_cex:
            inconclusive.append((u.name, 'twin', 'reachability twin (assert False) produced no counterexample: harness is vacuous'))
        row['cex'] = sum(1 for r in o['results'] if r['kind'] == 'cex')

    xs = dict(checked=0, agree=0, disagree=0, no_answer=0)
    if smt2 and not violations:
        k = 12 if args.tier == 'thorough' else 3
        step = max(1, len(smt2) // k)
        xs = cvc5_crosscheck(smt2[::step][:k], limit_s=20 if args.tier == 'thorough' else 8)
        if xs['disagree']:
            inconclusive.append(('second-solver', 'disagree', 'cvc5 answered sat on a VC z3 proved unsat'))

    os.makedirs(os.path.join(VERIF, 'replays'), exist_ok=True)
    lines = []
    rc = 0
    for fid, (uname, r) in sorted(known_hits.items()):
        lines.append('KNOWN-FINDING: property=%s %s [%s] unit=%s inputs=%s' % (
            prop, known[fid].get('what', ''), fid, uname, json.dumps(r['model'], default=str)[:300]))
    seen = set()
    for uname, r in violations:
        body = dict(property=prop, unit=uname, tier=args.tier, seed=seed, model=r['model'], notes=r.get('notes', {}),
                    info=r.get('info'))
        h = hashlib.sha256(json.dumps(body, sort_keys=True, default=str).encode()).hexdigest()[:10]
        path = os.path.join(VERIF, 'replays', '%s-%s.json' % (prop, h))
        if len(seen) < 4:
            json.dump(body, open(path, 'w'), indent=1, default=str)
            lines.append('VIOLATION property=%s replay=%s' % (prop, path))
            lines.append('  unit=%s inputs=%s' % (uname, json.dumps(r['model'], default=str)[:400]))
            lines.append('  observed: %s' % (json.dumps(r.get('info'), default=str)[:500]))
        seen.add(h)
    if violations:
        rc = 1
    elif harness_err:
        rc = 3
    elif inconclusive:
        rc = 2
    for nm, kind, msg in harness_err[:5]:
        lines.append('HARNESS-ERROR unit=%s %s: %s' % (nm, kind, msg[:700]))
    for nm, kind, msg in inconclusive[:5]:
        lines.append('INCONCLUSIVE unit=%s %s: %s' % (nm, kind, msg[:600]))

    wall = time.time() - t0
    funcs = sorted({f for u in sel_units for f in u.funcs})
    ev = dict(
        property_id=prop, tier=args.tier, seed=seed, level='other', wall_s=round(wall, 2),
        violations=len(violations),
        coverage=dict(
            explanation=(getattr(mod, 'EXPLANATION', '') + ' Decided by SYMX: the listed functions of /repo were executed on z3 proxy '
                         'values; every feasible path was enumerated by forking at each symbolic branch, and on every path the '
                         'negated property was submitted to z3 (unsat on all paths = holds for all inputs within the bounds).'),
            evaluations=tot['paths'], distinct_nontrivial=tot['nontrivial'],
            rule='one evaluation = one feasible execution path of the encoded functions (distinct decision sequence); '
                 'non-trivial = the path condition contains at least one decision on a symbolic value',
            samples=samples[:8] or [dict(note='no path samples recorded')],
            functions_encoded=funcs, source_sha256_16=file_hashes(funcs),
            units=unit_rows, paths_reaching_assertion=tot['reached'], paths_pruned=tot['pruned'],
            solver_queries=tot['queries'], solver_seconds=round(tot['solver_s'], 2), solver_unknown=tot['unknown'],
            verification_conditions=tot['vcs'], verification_conditions_unsat=tot['vcs_unsat'],
            second_solver_cvc5=xs,
            counterexamples_reproduced=len(violations), known_findings_hit=sorted(known_hits),
            inconclusive=[list(x)[:2] for x in inconclusive][:20],
            harness_errors=[list(x)[:2] for x in harness_err][:20],
            solver='z3 %s (python wheel), timeout per query %s ms' % (z3.get_version_string(), sel_units[0].timeout_ms if sel_units else 0),
            stubs=sorted({s for u in sel_units for s in u.stubs}),
            bounds=sorted({u.bounds for u in sel_units if u.bounds}),
            outside_claim=getattr(mod, 'OUTSIDE', ''),
            exhaustive=False,
        ),
        assumptions=sorted({a for u in sel_units for a in u.assumptions}) + list(getattr(mod, 'ASSUMPTIONS', [])),
    )
    if not args.no_evidence and not args.only:
        os.makedirs(os.path.join(VERIF, 'evidence'), exist_ok=True)
        json.dump(ev, open(os.path.join(VERIF, 'evidence', '%s.json' % prop), 'w'), indent=1, default=str)
    for ln in lines:
        print(ln)
    print('%s tier=%s units=%d paths=%d reached=%d vcs=%d/%d unsat queries=%d solver=%.1fs wall=%.1fs cvc5=%s -> exit %d' % (
        prop, args.tier, len(sel_units), tot['paths'], tot['reached'], tot['vcs_unsat'], tot['vcs'], tot['queries'],
        tot['solver_s'], wall, xs, rc))
    return rc


def run_units_sel(modname, idx, sel_units, tier, seed, jobs):
    # order longest-first when units declare a weight
    hard = {i: u.hard_seconds for i, u in zip(idx, sel_units)}
    ctx = mp.get_context('fork')
    pending = list(idx)
    running, outs = {}, {}
    while pending or running:
        while pending and len(running) < jobs:
            i = pending.pop(0)
            q = ctx.Queue()
            p = ctx.Process(target=_worker, args=(modname, i, tier, seed, q))
            p.start()
            running[i] = (p, q, time.time())
        time.sleep(0.02)
        for i in list(running):
            p, q, t0 = running[i]
            try:
                got = q.get_nowait()
            except Exception:  # noqa: BLE001
                got = None
            if got is not None:
                outs[i] = got
                p.join(5)
                if p.is_alive():
                    p.kill()
                del running[i]
            elif not p.is_alive():
                try:
                    outs[i] = q.get(timeout=2)
                except Exception:  # noqa: BLE001
                    outs[i] = dict(unit=None, status='error', msg='worker died (exit %s)' % p.exitcode, results=[], stats={}, samples=[])
                del running[i]
            elif time.time() - t0 > hard[i]:
                p.kill()
                outs[i] = dict(unit=None, status='timeout', msg='hard wall limit %ss' % hard[i], results=[], stats={}, samples=[])
                del running[i]
    return [outs[i] for i in idx]
