from .engine import *  # noqa
